#!/bin/sh
# Must-fail corpus: every patch in selftest/mutants/<Cxx>-*.patch and every sub-agent change seeded/<Cxx>-*/patch.diff is applied to a scratch copy of /repo and
# the property's check must report a VIOLATION there (and the canaries/known findings must still be seen).
# usage: selftest/run.sh [Cxx ...]
HERE=$(cd "$(dirname "$0")/.." && pwd)
# A change that breaks a property usually breaks many obligations at once; each of them would burn the full solver
# budget (and the second round) before being reported. For the corpus a short budget and no second round are enough:
# a mutant counts as caught by its first VIOLATION line. (The registered quick/thorough commands use the full budgets.)
export VC_TIMEOUT=${SELFTEST_TIMEOUT:-12} VC_NORETRY=1
fail=0
for p in "$HERE"/selftest/mutants/*.patch "$HERE"/seeded/*/patch.diff; do
  case "$p" in */patch.diff) id=$(basename "$(dirname "$p")" | cut -d- -f1); label="seeded/$(basename "$(dirname "$p")")";; *) id=$(basename "$p" | cut -d- -f1); label=$(basename "$p");; esac
  if [ $# -gt 0 ]; then case " $* " in *" $id "*) ;; *) continue;; esac; fi
  d=$(mktemp -d -p /var/tmp selftest.XXXXXX)
  rsync -a --exclude .git /repo/ "$d/"
  if ! (cd "$d" && patch -p1 -s < "$p"); then echo "SELFTEST-ERROR: $p does not apply"; fail=1; rm -rf "$d"; continue; fi
  out=$("$HERE/check" "$id" quick --repo "$d" -no-evidence 2>&1)
  if echo "$out" | grep -q "^VIOLATION property=$id"; then
    echo "caught: $label: $(echo "$out" | grep '^VIOLATION' | head -1 | sed 's/replay=.*replays\///')"
  else
    echo "MISSED: $label"; echo "$out" | tail -5; fail=1
  fi
  rm -rf "$d"
done
exit $fail
