#!/bin/bash
# tools/seeded.sh <seed-id> <agent-worktree> <property> [pkg-dir-of-demo=serf]
# Copies a seeded change produced by a sub-agent into /verif/seeded/<seed-id>/, confirms it independently in a
# scratch worktree (builds; the package suite passes; the demonstration fails with the change and passes without),
# then runs the property's check against /repo with the change applied and records the outcome in meta.json.
set -u
ID=$1; WT=$2; PROP=$3; PKG=${4:-serf}
export PATH=/opt/veriftools/go1.26.8/bin:$PATH GOFLAGS=-mod=mod GOPROXY=off GOSUMDB=off GOTOOLCHAIN=local
DST=/verif/seeded/$ID
if [ -n "$(git -C /repo status --porcelain)" ]; then echo "refusing: /repo has uncommitted changes (commit the hooks first)"; exit 2; fi
mkdir -p $DST
cp $WT/SEEDED/patch.diff $DST/patch.diff
cp $WT/SEEDED/meta.json $DST/meta.agent.json
DEMO=$(ls $WT/SEEDED/*_test.go | head -1)
cp $DEMO $DST/
DEMOBASE=$(basename $DEMO)
TEST=$(jq -r .demo_test $DST/meta.agent.json)
S=$(mktemp -d -p /var/tmp seedchk.XXXXXX); rmdir $S
git -C /repo worktree add -q --detach $S HEAD
R=$DST/confirm.log; : > $R
( cd $S && git apply $DST/patch.diff ) >> $R 2>&1 && echo "patch applies: yes" >> $R || echo "patch applies: NO" >> $R
( cd $S && go build ./... ) >> $R 2>&1 && echo "builds: yes" >> $R || echo "builds: NO" >> $R
( cd $S && unshare -n sh -c "ip link set lo up; go test -vet=off -count=1 -timeout 20m ./$PKG" > $S/suite.out 2>&1 ); grep -E "^(--- FAIL|FAIL|ok)" $S/suite.out | head -8 >> $R
if grep -q "^ok" $S/suite.out; then echo "package suite with change: passes" >> $R; else
  # the suite has timing-dependent tests: rerun just the failed ones once before calling it a failure
  # TestSyslogFilter and TestCommandRun_mDNS fail on the unmodified tree in this sandbox (no syslog, no multicast)
  FT=$(grep -E "^--- FAIL" $S/suite.out | awk '{print $3}' | grep -v -E '^(TestSyslogFilter|TestCommandRun_mDNS)$' | paste -sd'|')
  if [ -z "$FT" ]; then echo "package suite with change: passes (only the two failures the unmodified tree also has here: TestSyslogFilter, TestCommandRun_mDNS)" >> $R; else
  ( cd $S && unshare -n sh -c "ip link set lo up; go test -vet=off -count=1 -timeout 20m -run '^($FT)\$' ./$PKG" > $S/suite2.out 2>&1 )
  grep -q "^ok" $S/suite2.out && echo "package suite with change: passes (after one rerun of timing-dependent: $FT)" >> $R || echo "package suite with change: FAILS" >> $R
  fi
fi
cp $DST/$DEMOBASE $S/$PKG/
( cd $S && unshare -n sh -c "ip link set lo up; go test -vet=off -count=1 -timeout 10m -run '^${TEST}\$' ./$PKG" > $S/demo1.out 2>&1 ); grep -q "^ok" $S/demo1.out && echo "demo with change: PASSES (unexpected)" >> $R || echo "demo with change: fails (expected)" >> $R
( cd $S && git apply -R $DST/patch.diff && unshare -n sh -c "ip link set lo up; go test -vet=off -count=1 -timeout 10m -run '^${TEST}\$' ./$PKG" > $S/demo2.out 2>&1 ); grep -q "^ok" $S/demo2.out && echo "demo without change: passes (expected)" >> $R || echo "demo without change: FAILS (unexpected)" >> $R
# detection by the registered check, run against the scratch worktree with the change applied (the same check
# command as in MANIFEST, pointed at the copy with --repo, so that /repo itself is never modified)
( cd $S && rm -f $PKG/$DEMOBASE && git apply $DST/patch.diff ) && ( cd /verif && ./check $PROP quick -no-evidence --repo $S > $DST/check.out 2>&1; echo "check exit: $?" >> $R )
sed -i "s|$S|/repo|g" $DST/check.out
git -C /repo worktree remove --force $S
grep "^VIOLATION" $DST/check.out | sed 's/replay=.*replays\//replay=/' >> $R
tail -1 $DST/check.out >> $R
cat $R
