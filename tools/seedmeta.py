#!/usr/bin/env python3
# Writes seeded/<id>/meta.json from the sub-agent's own description, my independent confirmation log and the check output.
import json,os,re,sys,glob
root=os.path.join(os.path.dirname(os.path.abspath(__file__)),'..','seeded')
for d in sorted(glob.glob(os.path.join(root,'*'))):
    if not os.path.isdir(d): continue
    a={}
    try: a=json.load(open(os.path.join(d,'meta.agent.json')))
    except Exception: pass
    conf=open(os.path.join(d,'confirm.log')).read() if os.path.exists(os.path.join(d,'confirm.log')) else ''
    out=open(os.path.join(d,'check.out')).read() if os.path.exists(os.path.join(d,'check.out')) else ''
    viol=[re.sub(r'replay=.*replays/','replay=',l) for l in out.splitlines() if l.startswith('VIOLATION')]
    prop=a.get('property') or os.path.basename(d).split('-')[0]
    demo=[os.path.basename(f) for f in glob.glob(os.path.join(d,'*_test.go'))]
    meta={
      'id':os.path.basename(d),
      'property':prop,
      'origin':'fresh sub-agent given only the property text and a scratch worktree of /repo',
      'summary':a.get('summary') or a.get('description') or a.get('change') or '',
      'needs_to_manifest':a.get('needs_to_manifest') or a.get('what_it_needs_to_manifest') or a.get('needs') or a.get('what_it_needs') or '',
      'patch':'patch.diff','demonstration':demo,'demo_test':a.get('demo_test'),
      'what_i_ran':[
        'tools/seeded.sh: scratch worktree of /repo HEAD under /var/tmp, git apply patch.diff, go build ./..., package test suite inside unshare -n, demonstration test with the change (must fail) and after git apply -R (must pass); worktree removed',
        'git -C /repo apply patch.diff; ./check %s quick -no-evidence; git -C /repo checkout -- .'%prop],
      'confirmation':[l for l in conf.splitlines() if re.match(r'(patch applies|builds|package suite|demo with|demo without|check exit)',l)],
      'detected':bool(viol),
      'violations_reported':viol,
      'check_summary':out.strip().splitlines()[-1] if out.strip() else '',
    }
    json.dump(meta,open(os.path.join(d,'meta.json'),'w'),indent=1)
    print(meta['id'],'detected' if viol else 'MISSED',len(viol))
