#!/usr/bin/env python3
"""Every contract that is not marked trusted must be proved by at least one claimed check (it is selected by a clause
tagged with a claimed property or by a 'functions' list in props.json); otherwise callers would assume clauses nobody
proved. Prints the offenders and exits 1 if there are any."""
import re, json, sys, glob, os
here = os.path.dirname(os.path.dirname(os.path.abspath(__file__)))
props = json.load(open(os.path.join(here, 'props.json')))
claimed = set(props)
listed = set(f for p in props.values() for f in p.get('functions', []))
bad = 0
for path in glob.glob('/repo/**/zz_contracts_verif.go', recursive=True):
    s = open(path).read()
    pkg = re.search(r'^package (\w+)', s, re.M).group(1)
    for hdr, body in re.findall(r'//@ func (.*?)\n(.*?)//@ end', s, re.S):
        if '//@   trusted' in body:
            continue
        tags = set(t.strip() for m in re.findall(r'\[([A-Za-z0-9,]+)\]', body) for t in m.split(','))
        m = re.match(r'(?:\((\w+) \*?([\w.]+)\) )?(\w+)\(', hdr)
        recv, name = m.group(2), m.group(3)
        full = pkg + '.' + (recv.split('.')[-1] + '.' if recv else '') + name
        if not (tags & claimed) and full not in listed:
            print('contract never proved by a claimed check:', full)
            bad += 1
print('audit: %d unproved non-trusted contracts' % bad)
sys.exit(1 if bad else 0)
