#!/usr/bin/env python3
"""Regenerates MANIFEST.json from props.json (claimed checks) and na.json (not applicable, with reasons)."""
import json, os, subprocess
here = os.path.dirname(os.path.dirname(os.path.abspath(__file__)))
props = json.load(open(os.path.join(here, "props.json")))
na = json.load(open(os.path.join(here, "na.json")))
allids = [json.loads(l)["id"] for l in open(os.path.join(here, "properties.jsonl")) if l.strip()]
hooks = []
try:
    out = subprocess.run(["git", "-C", "/repo", "log", "--format=%H %s"], capture_output=True, text=True).stdout
    for l in out.splitlines():
        h, s = l.split(" ", 1)
        if s.startswith("verif hook"):
            hooks.append(h)
except Exception:
    pass
checks = []
for pid in allids:
    if pid not in props:
        continue
    p = props[pid]
    checks.append({
        "property_id": pid,
        "quick_cmd": "./check %s quick" % pid,
        "thorough_cmd": "./check %s thorough" % pid,
        "evidence_file": "/verif/evidence/%s.json" % pid,
        "replay_cmd_template": "./check %s --replay {path}" % pid,
        "engine": "vc",
        "level_claimed": {"category": p.get("level", "proof"), "text": p["level_text"], "design_ref": p.get("design_ref", "DESIGN.md §5 " + pid)},
        "level_note": p["level_note"],
        "technique": p.get("technique", "contract-based deductive verification: weakest-precondition VCs over go/ssa of the real functions, //@ contracts, discharged by z3/cvc5"),
    })
nas = []
for pid in allids:
    if pid in props:
        continue
    nas.append({"property_id": pid, "reason": na.get(pid, "no contract within reach of the engine was brought to discharge for this property; not claimed")})
m = {
    "version": 1,
    "setup_cmd": "cd /verif/engine && PATH=/opt/veriftools/go1.26.8/bin:$PATH GOTOOLCHAIN=local GOFLAGS=-mod=mod GOPROXY=off GOSUMDB=off go build -o ../bin/vc ./cmd/vc",
    "hooks": {
        "guard": "verif",
        "enable": "go build tag 'verif' (-tags=verif): the hooks are comment-only files zz_contracts_verif.go holding //@ contract blocks; the engine loads /repo with that tag and an in-memory overlay of ghost Go generated from them",
        "baseline_off_cmd": "cd /repo && PATH=/opt/veriftools/go1.26.8/bin:$PATH GOTOOLCHAIN=local GOFLAGS=-mod=mod GOPROXY=off GOSUMDB=off go test -json -vet=off -count=1 -timeout 25m ./...",
        "source_commits": hooks,
        "add_only": True,
    },
    "engines": [{"name": "vc", "path": "/verif/engine", "serves_properties": [c["property_id"] for c in checks],
                 "kind_free_text": "deductive verifier for Go written for this task: go/packages+go/ssa front end, //@ contracts compiled to ghost Go, symbolic execution with loop invariants and modular calls, SMT-LIB obligations raced on z3 5.1.0 / z3 4.8.12 / cvc5 1.0.3"}],
    "checks": checks,
    "not_applicable": nas,
    "notes": "All checks are produced by one engine (/verif/engine, built by setup_cmd). A check exits 1 only with a VIOLATION line; UNDECIDED and KNOWN-FINDING lines leave the exit status at 0. See DESIGN.md.",
}
json.dump(m, open(os.path.join(here, "MANIFEST.json"), "w"), indent=1)
print("checks:", len(checks), "not_applicable:", len(nas))
