package main

import (
	"bytes"
	"fmt"
	"go/ast"
	"go/parser"
	"go/printer"
	"go/token"
	"os"
	"regexp"
	"strings"
)

// Contract is the parsed //@ block of one function.
type Contract struct {
	Key      string // "Recv.Name" or "Name"
	Header   string
	Clauses  []Clause
	LoopVars map[int]string // loop ordinal -> "name type, name type"
	LoopAlias map[string]string // "k.alias" -> source variable name
	Line     int
	Trusted  bool
	NoInline bool
	LogCalls bool // calls applied by contract are recorded in the ghost call log
	LogName  string // name of a separate call log ("" = the default one)
}

type Clause struct {
	Kind string // requires ensures case let loopinv assigns
	Loop int
	Name string
	Tags string
	Expr string
	Line int
}

type Lemma struct {
	Name string
	Tags string
	Text string // "(params) { body }"
	Line int
}

// LockRely: a field protected by a lock which every critical section of every thread changes only according to Rel.
type LockRely struct {
	Lock, Field, Rel string
	Ranged         bool
	Lo, Hi         int64
}

// LockInv: an invariant over the state a lock protects.
type LockInv struct {
	Lock, Pred string
	ClosedOf   []string // channel-typed fields of the object whose closed state the lock also protects
}

type SpecFile struct {
	Pkg       string
	Path      string
	Imports   []string
	Contracts []*Contract
	Pures     []string
	Lemmas    []*Lemma
	Relies    map[string]string // "Type.field" -> relation
	Guards    map[string]string // "Type.field" -> "Type.lock"
	LockRelies []LockRely
	LockInvs   []LockInv
	Deterministic []string      // "Iface.Method" callbacks treated as deterministic functions
	Lines     []string
}

var clauseRe = regexp.MustCompile(`^(requires|ensures|canary|case|oldlet|let|assigns|trusted|noinline|logcalls|loop\s+\d+\s+(invariant|vars))\b\s*(.*)$`)
var nameTagRe = regexp.MustCompile(`^([A-Za-z_][A-Za-z0-9_]*)?\s*(\[[A-Za-z0-9, ]*\])?\s*:\s*(.*)$`)

// ParseSpecFile reads the //@ blocks of a contracts file.
func ParseSpecFile(path string) (*SpecFile, error) {
	data, err := os.ReadFile(path)
	if err != nil {
		return nil, err
	}
	sf := &SpecFile{Path: path, Relies: map[string]string{}, Guards: map[string]string{}}
	var lines []string
	var lineNos []int
	for i, ln := range strings.Split(string(data), "\n") {
		t := strings.TrimSpace(ln)
		if strings.HasPrefix(t, "package ") && sf.Pkg == "" {
			sf.Pkg = strings.TrimSpace(strings.TrimPrefix(t, "package "))
		}
		if strings.HasPrefix(t, "//@") {
			lines = append(lines, strings.TrimPrefix(t, "//@"))
			lineNos = append(lineNos, i+1)
		}
	}
	for i := 0; i < len(lines); i++ {
		t := strings.TrimSpace(lines[i])
		switch {
		case t == "" || strings.HasPrefix(t, "#"):
		case strings.HasPrefix(t, "import "):
			sf.Imports = append(sf.Imports, strings.TrimSpace(strings.TrimPrefix(t, "import ")))
		case strings.HasPrefix(t, "deterministic "):
			sf.Deterministic = append(sf.Deterministic, strings.Fields(strings.TrimPrefix(t, "deterministic "))...)
		case strings.HasPrefix(t, "rely "):
			f := strings.Fields(t)
			if len(f) != 3 {
				return nil, fmt.Errorf("%s:%d: bad rely", path, lineNos[i])
			}
			sf.Relies[f[1]] = f[2]
		case strings.HasPrefix(t, "lockrely "):
			// lockrely Type.lock: Type.field nondecreasing
			rest := strings.TrimPrefix(t, "lockrely ")
			parts := strings.SplitN(rest, ":", 2)
			f := strings.Fields(parts[len(parts)-1])
			if len(parts) != 2 || (len(f) != 2 && len(f) != 3) {
				return nil, fmt.Errorf("%s:%d: bad lockrely", path, lineNos[i])
			}
			lr := LockRely{Lock: strings.TrimSpace(parts[0]), Field: f[0], Rel: f[1]}
			if len(f) == 3 {
				// value range lo..hi kept by every critical section
				if _, err := fmt.Sscanf(f[2], "%d..%d", &lr.Lo, &lr.Hi); err != nil {
					return nil, fmt.Errorf("%s:%d: bad lockrely range", path, lineNos[i])
				}
				lr.Ranged = true
			}
			sf.LockRelies = append(sf.LockRelies, lr)
		case strings.HasPrefix(t, "lockinv "):
			// lockinv Type.lock: predName [closed(chanField), ...]
			// predName(obj) holds whenever the lock is free; it is assumed when the lock is taken (after the guarded
			// fields, and the closed state of the listed channel fields, have been given arbitrary values) and must be
			// re-established when the lock is released
			rest := strings.TrimPrefix(t, "lockinv ")
			parts := strings.SplitN(rest, ":", 2)
			if len(parts) != 2 {
				return nil, fmt.Errorf("%s:%d: bad lockinv", path, lineNos[i])
			}
			f := strings.Fields(strings.NewReplacer(",", " ").Replace(parts[1]))
			if len(f) < 1 {
				return nil, fmt.Errorf("%s:%d: bad lockinv", path, lineNos[i])
			}
			li := LockInv{Lock: strings.TrimSpace(parts[0]), Pred: f[0]}
			for _, g := range f[1:] {
				if strings.HasPrefix(g, "closed(") && strings.HasSuffix(g, ")") {
					li.ClosedOf = append(li.ClosedOf, g[len("closed("):len(g)-1])
				} else {
					return nil, fmt.Errorf("%s:%d: bad lockinv item %q", path, lineNos[i], g)
				}
			}
			sf.LockInvs = append(sf.LockInvs, li)
		case strings.HasPrefix(t, "guards "):
			// guards Type.lock: Type.f1, Type.f2
			rest := strings.TrimPrefix(t, "guards ")
			parts := strings.SplitN(rest, ":", 2)
			if len(parts) != 2 {
				return nil, fmt.Errorf("%s:%d: bad guards", path, lineNos[i])
			}
			for _, f := range strings.Split(parts[1], ",") {
				sf.Guards[strings.TrimSpace(f)] = strings.TrimSpace(parts[0])
			}
		case strings.HasPrefix(t, "pure func ") || strings.HasPrefix(t, "ghost "):
			// Go text until braces balance
			text := strings.TrimPrefix(t, "pure ")
			text = strings.TrimPrefix(text, "ghost ")
			depth := braceDelta(text)
			for depth > 0 && i+1 < len(lines) {
				i++
				text += "\n" + lines[i]
				depth += braceDelta(lines[i])
			}
			sf.Pures = append(sf.Pures, text)
		case strings.HasPrefix(t, "lemma "):
			rest := strings.TrimPrefix(t, "lemma ")
			m := regexp.MustCompile(`^([A-Za-z_][A-Za-z0-9_]*)\s*(\[[A-Za-z0-9, ]*\])?\s*(.*)$`).FindStringSubmatch(rest)
			if m == nil {
				return nil, fmt.Errorf("%s:%d: bad lemma", path, lineNos[i])
			}
			lm := &Lemma{Name: m[1], Tags: strings.Trim(m[2], "[]"), Text: m[3], Line: lineNos[i]}
			depth := braceDelta(m[3])
			for depth > 0 && i+1 < len(lines) {
				i++
				lm.Text += "\n" + lines[i]
				depth += braceDelta(lines[i])
			}
			sf.Lemmas = append(sf.Lemmas, lm)
		case strings.HasPrefix(t, "func "):
			c := &Contract{Header: t, LoopVars: map[int]string{}, Line: lineNos[i]}
			for i+1 < len(lines) {
				i++
				u := strings.TrimSpace(lines[i])
				if u == "end" {
					break
				}
				if u == "" || strings.HasPrefix(u, "#") {
					continue
				}
				m := clauseRe.FindStringSubmatch(u)
				if m == nil {
					if len(c.Clauses) == 0 {
						return nil, fmt.Errorf("%s:%d: continuation without clause: %s", path, lineNos[i], u)
					}
					c.Clauses[len(c.Clauses)-1].Expr += "\n" + u
					continue
				}
				kw := strings.Fields(m[1])
				rest := m[3]
				switch kw[0] {
				case "trusted":
					c.Trusted = true
				case "noinline":
					c.NoInline = true
				case "logcalls":
					// "logcalls" records in the default call log, "logcalls NAME" in a separate one
					c.LogCalls = true
					c.LogName = strings.TrimSpace(rest)
				case "let", "oldlet":
					// let: bound in the current (post/loop) state; oldlet: bound in the pre-state
					c.Clauses = append(c.Clauses, Clause{Kind: kw[0], Expr: rest, Line: lineNos[i]})
				case "assigns":
					c.Clauses = append(c.Clauses, Clause{Kind: "assigns", Expr: rest, Line: lineNos[i]})
				case "loop":
					var k int
					fmt.Sscanf(kw[1], "%d", &k)
					if kw[2] == "vars" {
						// "alias=name type": the source variable `name` is called `alias` in the invariant
						var parts []string
						for _, p := range splitTop(rest, ',') {
							p = strings.TrimSpace(p)
							f := strings.Fields(p)
							if len(f) >= 2 && strings.Contains(f[0], "=") {
								an := strings.SplitN(f[0], "=", 2)
								if c.LoopAlias == nil {
									c.LoopAlias = map[string]string{}
								}
								c.LoopAlias[fmt.Sprintf("%d.%s", k, an[0])] = an[1]
								p = an[0] + " " + strings.Join(f[1:], " ")
							}
							parts = append(parts, p)
						}
						c.LoopVars[k] = strings.Join(parts, ", ")
						continue
					}
					nm := nameTagRe.FindStringSubmatch(rest)
					if nm == nil {
						return nil, fmt.Errorf("%s:%d: bad loop invariant", path, lineNos[i])
					}
					c.Clauses = append(c.Clauses, Clause{Kind: "loopinv", Loop: k, Name: nm[1], Tags: strings.Trim(nm[2], "[]"), Expr: nm[3], Line: lineNos[i]})
				default:
					nm := nameTagRe.FindStringSubmatch(rest)
					if nm == nil {
						return nil, fmt.Errorf("%s:%d: bad clause: %s", path, lineNos[i], u)
					}
					c.Clauses = append(c.Clauses, Clause{Kind: kw[0], Name: nm[1], Tags: strings.Trim(nm[2], "[]"), Expr: nm[3], Line: lineNos[i]})
				}
			}
			sf.Contracts = append(sf.Contracts, c)
		default:
			return nil, fmt.Errorf("%s:%d: unrecognised spec line: %s", path, lineNos[i], t)
		}
	}
	return sf, nil
}

func braceDelta(s string) int {
	d := 0
	inStr := false
	for i := 0; i < len(s); i++ {
		c := s[i]
		if inStr {
			if c == '\\' {
				i++
			} else if c == '"' {
				inStr = false
			}
			continue
		}
		switch c {
		case '"':
			inStr = true
		case '{':
			d++
		case '}':
			d--
		}
	}
	return d
}

// header analysis -----------------------------------------------------------

type headerInfo struct {
	Recv    string // receiver type name without pointer ("" for plain functions)
	RecvPkg string // for trusted contracts on external methods: package qualifier
	Name    string
	Params  string // "a T, b U" including receiver first
	Results string // "ret bool" (named)
	NRes    int
}

var pkgFuncHeaderRe = regexp.MustCompile(`^func\s+([a-z][A-Za-z0-9_]*)\.([A-Za-z_][A-Za-z0-9_]*)\s*\(`)

func parseHeader(h string) (*headerInfo, error) {
	// "func pkg.Name(...)": a (trusted) contract on a plain function of an imported package
	pkgQual := ""
	if m := pkgFuncHeaderRe.FindStringSubmatch(h); m != nil {
		pkgQual = m[1]
		h = "func " + m[2] + "(" + h[len(m[0]):]
	}
	hi, err := parseHeader1(h)
	if err == nil && pkgQual != "" {
		hi.RecvPkg = pkgQual
	}
	return hi, err
}

func parseHeader1(h string) (*headerInfo, error) {
	src := "package p\n" + h + " {}\n"
	fset := token.NewFileSet()
	f, err := parser.ParseFile(fset, "h.go", src, 0)
	if err != nil {
		return nil, fmt.Errorf("bad contract header %q: %v", h, err)
	}
	fd := f.Decls[0].(*ast.FuncDecl)
	hi := &headerInfo{Name: fd.Name.Name}
	pr := func(e ast.Expr) string {
		var b bytes.Buffer
		printer.Fprint(&b, fset, e)
		return b.String()
	}
	var ps []string
	if fd.Recv != nil && len(fd.Recv.List) == 1 {
		r := fd.Recv.List[0]
		t := r.Type
		if st, ok := t.(*ast.StarExpr); ok {
			t = st.X
		}
		switch x := t.(type) {
		case *ast.Ident:
			hi.Recv = x.Name
		case *ast.SelectorExpr:
			hi.Recv = x.Sel.Name
			hi.RecvPkg = pr(x.X)
		}
		name := "_"
		if len(r.Names) > 0 {
			name = r.Names[0].Name
		}
		ps = append(ps, name+" "+pr(r.Type))
	}
	anon := 0
	for _, p := range fd.Type.Params.List {
		ty := pr(p.Type)
		if el, ok := p.Type.(*ast.Ellipsis); ok {
			ty = "[]" + pr(el.Elt)
		}
		if len(p.Names) == 0 {
			ps = append(ps, fmt.Sprintf("_p%d %s", anon, ty))
			anon++
		}
		for _, n := range p.Names {
			ps = append(ps, n.Name+" "+ty)
		}
	}
	hi.Params = strings.Join(ps, ", ")
	var rs []string
	if fd.Type.Results != nil {
		for _, p := range fd.Type.Results.List {
			if len(p.Names) == 0 {
				rs = append(rs, fmt.Sprintf("ret%d %s", hi.NRes, pr(p.Type)))
				hi.NRes++
			}
			for _, n := range p.Names {
				rs = append(rs, n.Name+" "+pr(p.Type))
				hi.NRes++
			}
		}
	}
	hi.Results = strings.Join(rs, ", ")
	return hi, nil
}

func (h *headerInfo) Key() string {
	k := h.Name
	if h.Recv != "" {
		k = h.Recv + "." + h.Name
	}
	if h.RecvPkg != "" {
		k = h.RecvPkg + "." + k
	}
	return k
}

func specFuncName(key string) string { return "__spec_" + strings.ReplaceAll(key, ".", "_") }
func loopFuncName(key string, k int) string {
	return fmt.Sprintf("__loop%d_%s", k, strings.ReplaceAll(key, ".", "_"))
}

// Ghost Go generation -------------------------------------------------------

const preludeSrc = `
func __requires(name string, tags string, c bool) {}
func __ensures(name string, tags string, c bool)  {}
func __canary(name string, tags string, c bool)   {}
func __invariant(name string, tags string, c bool) {}
func __assert(name string, tags string, c bool)   {}
func __assume(c bool)                            {}
func __case(name string, c bool)                 {}
func __oldMark() bool                            { return true }
func __oldEnd()                                  {}
func __old[T any](_ bool, x T) T                 { return x }
func __ite[T any](c bool, a, b T) T              { if c { return a }; return b }
func __forall[A any](f func(A) bool) bool        { return true }
func __forall2[A, B any](f func(A, B) bool) bool { return true }
func __forall3[A, B, C any](f func(A, B, C) bool) bool { return true }
func __exists[A any](f func(A) bool) bool        { return true }
func __exists2[A, B any](f func(A, B) bool) bool { return true }
func __visited[K comparable, V any](m map[K]V, k K) bool { return true }
func __witness(x int) bool { return true }
func __countRecv[T any](ch <-chan T, lo, hi int, pred func(T) bool) int { return 0 }
func __countIn[T any](s []T, lo, hi int, pred func(T) bool) int { return 0 }
func __sumSq(v []float64, n int) float64 { return 0 }
func __sumSqDiff(a, b []float64, n int) float64 { return 0 }
func __distinctRefs(a, b any) bool { return true }
func __allocatedRef(a any) bool { return true }
func __mapAt[K comparable, V any](m map[K]V, k K) V { var z V; return z }
func __mapHas[K comparable, V any](m map[K]V, k K) bool { return true }
func __sentN[T any](ch chan<- T) int             { return 0 }
func __sentAt[T any](ch chan<- T, i int) T       { var z T; return z }
func __recvN[T any](ch <-chan T) int             { return 0 }
func __recvAt[T any](ch <-chan T, i int) T       { var z T; return z }
func __sentStamp[T any](ch chan<- T, i int) int  { return 0 }
func __neverClosed[T any](ch <-chan T) bool      { return true }
func __recvTotal[T any](ch <-chan T) int         { return 0 }
func __recvTotalAt[T any](ch <-chan T, i int) T  { var z T; return z }
func __closed[T any](ch chan<- T) bool           { return false }
func __drained[T any](ch <-chan T) bool { return false }
func __held(l any) bool                          { return true }
func __rheld(l any) bool                         { return true }
func __logN(name string) int                     { return 0 }
func __logAt[T any](name string, i int) T        { var z T; return z }
func __fresh[T any](p *T) bool                   { return true }
func __havoc[T any]() T                          { var z T; return z }
func __mapEq[K comparable, V comparable](a, b map[K]V) bool { return true }
func __sameElems[T any](a, b []T) bool { return true }
func __sameArray[T any](a, b []T) bool { return true }
func __nilSlice[T any](a []T) bool { return true }
func __disjoint[T any](a, b []T) bool { return true }
func __sameSlice[T any](a, b []T) bool { return true }
func __allocated[T any](p *T) bool { return true }
func __same[T any](a, b T) bool { return true }
func __arrayAllocated[T any](l []T) bool { return true }
func __allocatedElemsKept[T any](witness []T) bool { return true }
func __elemsUnchangedExcept[T any](l []T) bool { return true }
func __elemsUnchangedExcept2[T any](a, b []T) bool { return true }
func __spawnN() int { return 0 }
func __decoded[T any](buf []byte) T { var z T; return z }
func __decodeOK[T any](buf []byte) bool { return true }
func __nextDecoded[T any](dec any) T { var z T; return z }
func __nextDecodeOK[T any](dec any) bool { return true }
func __callN() int { return 0 }
func __callIs(i int, fn string) bool { return true }
func __callRet(i int) bool { return true }
func __callNOf(log string) int { return 0 }
func __callResOf[T any](log string, i int) T { var z T; return z }
func __callArgOf[T any](log string, i int) T { var z T; return z }
func __callArg2Of[T any](log string, i int) T { var z T; return z }
func __callRecvOf[T any](log string, i int) T { var z T; return z }
func __callStrOf(log string, i int) string { return "" }
func __callResStrOf(name string, i int) string { return "" }
func __sprintfArg(format string, text string) int { return 0 }
func __strFirst(text string) int { return 0 }
func __libFailN() int { return 0 }
func __fileClosed[T any](f *T) bool { return false }
func __callRetOf(log string, i int) bool { return true }
func __spawnArg(i int) uint64 { return 0 }
func __spawnIs(i int, fn string) bool { return true }
`

// Generate produces the ghost Go source for a package overlay.
func (sf *SpecFile) Generate() (string, error) {
	var b strings.Builder
	b.WriteString("//go:build verif\n\npackage " + sf.Pkg + "\n\n")
	for _, im := range sf.Imports {
		b.WriteString("import " + im + "\n")
	}
	b.WriteString(preludeSrc)
	for _, p := range sf.Pures {
		b.WriteString("\n" + rewriteSpecText(p) + "\n")
	}
	for _, c := range sf.Contracts {
		hi, err := parseHeader(c.Header)
		if err != nil {
			return "", fmt.Errorf("%s:%d: %v", sf.Path, c.Line, err)
		}
		c.Key = hi.Key()
		all := hi.Params
		if hi.Results != "" {
			if all != "" {
				all += ", "
			}
			all += hi.Results
		}
		fmt.Fprintf(&b, "\nfunc %s(%s) {\n", specFuncName(c.Key), all)
		// keep all parameters "used"
		for _, p := range splitParams(all) {
			if p != "_" {
				fmt.Fprintf(&b, "\t_ = %s\n", p)
			}
		}
		loops := map[int][]Clause{}
		for _, cl := range c.Clauses {
			e := rewriteSpecText(cl.Expr)
			switch cl.Kind {
			case "let", "oldlet":
				writeLet(&b, cl, e)
			case "requires":
				fmt.Fprintf(&b, "\t__requires(%q, %q, %s)\n", cl.Name, cl.Tags, e)
			case "ensures":
				fmt.Fprintf(&b, "\t__ensures(%q, %q, %s)\n", cl.Name, cl.Tags, e)
			case "canary":
				fmt.Fprintf(&b, "\t__canary(%q, %q, %s)\n", cl.Name, cl.Tags, e)
			case "case":
				fmt.Fprintf(&b, "\t__case(%q, %s)\n", cl.Name, e)
			case "loopinv":
				loops[cl.Loop] = append(loops[cl.Loop], cl)
			}
		}
		b.WriteString("}\n")
		for k, cls := range loops {
			params := all
			if lv := c.LoopVars[k]; lv != "" {
				if params != "" {
					params += ", "
				}
				params += lv
			}
			fmt.Fprintf(&b, "\nfunc %s(%s) {\n", loopFuncName(c.Key, k), params)
			for _, p := range splitParams(params) {
				if p != "_" {
					fmt.Fprintf(&b, "\t_ = %s\n", p)
				}
			}
			for _, cl := range c.Clauses {
				if cl.Kind == "let" || cl.Kind == "oldlet" {
					writeLet(&b, cl, rewriteSpecText(cl.Expr))
				}
			}
			for _, cl := range cls {
				fmt.Fprintf(&b, "\t__invariant(%q, %q, %s)\n", cl.Name, cl.Tags, rewriteSpecText(cl.Expr))
			}
			b.WriteString("}\n")
		}
	}
	for _, l := range sf.Lemmas {
		fmt.Fprintf(&b, "\nfunc __lemma_%s%s\n", l.Name, rewriteSpecText(l.Text))
	}
	return b.String(), nil
}

// writeLet emits a let / oldlet binding; an oldlet is evaluated in the pre-state.
func writeLet(b *strings.Builder, cl Clause, e string) {
	if cl.Kind == "oldlet" {
		fmt.Fprintf(b, "\t__oldMark()\n\t%s\n\t__oldEnd()\n", e)
	} else {
		fmt.Fprintf(b, "\t%s\n", e)
	}
	lhs := strings.SplitN(cl.Expr, ":=", 2)[0]
	for _, v := range strings.Split(lhs, ",") {
		v = strings.TrimSpace(v)
		if v != "_" && v != "" {
			fmt.Fprintf(b, "\t_ = %s\n", v)
		}
	}
}

func splitParams(params string) []string {
	var names []string
	for _, p := range splitTop(params, ',') {
		f := strings.Fields(strings.TrimSpace(p))
		if len(f) >= 1 {
			names = append(names, f[0])
		}
	}
	return names
}

// splitTop splits s at top-level occurrences of sep (outside brackets and strings).
func splitTop(s string, sep byte) []string {
	var out []string
	depth := 0
	inStr := false
	start := 0
	for i := 0; i < len(s); i++ {
		c := s[i]
		if inStr {
			if c == '\\' {
				i++
			} else if c == '"' {
				inStr = false
			}
			continue
		}
		switch c {
		case '"':
			inStr = true
		case '(', '[', '{':
			depth++
		case ')', ']', '}':
			depth--
		default:
			if c == sep && depth == 0 {
				out = append(out, s[start:i])
				start = i + 1
			}
		}
	}
	out = append(out, s[start:])
	return out
}

var (
	oldRe    = regexp.MustCompile(`\bold\(`)
	forallRe = regexp.MustCompile(`\b(forall|forall2|forall3|exists|exists2|ite|visited|mapAt|mapHas|witness|countRecv|countIn|sumSqDiff|sumSq|distinctRefs|allocatedRef|sentN|sentAt|sentStamp|neverClosed|recvN|recvAt|recvTotalAt|recvTotal|closed|drained|held|rheld|fresh|mapEq|sameElems|sameArray|sameSlice|allocatedElemsKept|allocated|arrayAllocated|same|nilSlice|disjoint|elemsUnchangedExcept|elemsUnchangedExcept2|spawnN|spawnArg|spawnIs|callNOf|callRetOf|callResOf\[[A-Za-z0-9_.*\[\]]+\]|callRecvOf\[[A-Za-z0-9_.*\[\]]+\]|callStrOf|callResStrOf|sprintfArg|strFirst|libFailN|fileClosed|callArg2Of\[[A-Za-z0-9_.*\[\]]+\]|callArgOf\[[A-Za-z0-9_.*\[\]]+\]|callN|callIs|callRet|decoded\[[A-Za-z0-9_.*\[\]]+\]|decodeOK\[[A-Za-z0-9_.*\[\]]+\]|nextDecoded\[[A-Za-z0-9_.*\[\]]+\]|nextDecodeOK\[[A-Za-z0-9_.*\[\]]+\]|logN|logAt\[[A-Za-z0-9_.*\[\]]+\])\(`)
	assertRe = regexp.MustCompile(`\bassert\(`)
)

// rewriteSpecText turns spec sugar into Go: ==>, old(), forall(), ...
func rewriteSpecText(s string) string {
	s = rewriteImplies(s)
	s = oldRe.ReplaceAllString(s, "__old(__oldMark(), ")
	s = forallRe.ReplaceAllString(s, "__${1}(")
	s = assertRe.ReplaceAllString(s, "__assert(")
	return s
}

// rewriteImplies rewrites every "a ==> b" (right associative, lowest
// precedence) into "(!(a) || (b))", recursing into bracketed groups.
func rewriteImplies(s string) string {
	if !strings.Contains(s, "==>") {
		return s
	}
	// first rewrite inside groups
	var b strings.Builder
	inStr := false
	for i := 0; i < len(s); i++ {
		c := s[i]
		if inStr {
			b.WriteByte(c)
			if c == '\\' && i+1 < len(s) {
				i++
				b.WriteByte(s[i])
			} else if c == '"' {
				inStr = false
			}
			continue
		}
		if c == '"' {
			inStr = true
			b.WriteByte(c)
			continue
		}
		if c == '(' || c == '[' || c == '{' {
			j := matchClose(s, i)
			if j < 0 {
				b.WriteString(s[i:])
				break
			}
			inner := s[i+1 : j]
			b.WriteByte(c)
			b.WriteString(rewriteGroup(inner, c))
			b.WriteByte(s[j])
			i = j
			continue
		}
		b.WriteByte(c)
	}
	return rewriteSegment(b.String())
}

func rewriteGroup(inner string, open byte) string {
	if !strings.Contains(inner, "==>") {
		return inner
	}
	// split on top-level separators, keeping them
	var out strings.Builder
	depth := 0
	inStr := false
	start := 0
	flush := func(end int, sep string) {
		out.WriteString(rewriteStatement(inner[start:end]))
		out.WriteString(sep)
	}
	for i := 0; i < len(inner); i++ {
		c := inner[i]
		if inStr {
			if c == '\\' {
				i++
			} else if c == '"' {
				inStr = false
			}
			continue
		}
		switch c {
		case '"':
			inStr = true
		case '(', '[', '{':
			depth++
		case ')', ']', '}':
			depth--
		case ',', ';', '\n':
			if depth == 0 {
				if c == '\n' && continuesExpr(inner[:i]) {
					continue // an expression continued on the next line
				}
				flush(i, string(c))
				start = i + 1
			}
		}
	}
	out.WriteString(rewriteStatement(inner[start:]))
	return out.String()
}

func rewriteStatement(seg string) string {
	if !strings.Contains(seg, "==>") {
		return seg
	}
	trim := strings.TrimLeft(seg, " \t")
	lead := seg[:len(seg)-len(trim)]
	if strings.HasPrefix(trim, "return ") {
		return lead + "return " + rewriteImplies(strings.TrimPrefix(trim, "return "))
	}
	return lead + rewriteImplies(trim)
}

// rewriteSegment handles top-level ==> of a string whose groups are already rewritten.
func rewriteSegment(s string) string {
	parts := splitTopStr(s, "==>")
	if len(parts) == 1 {
		return s
	}
	res := strings.TrimSpace(parts[len(parts)-1])
	for i := len(parts) - 2; i >= 0; i-- {
		res = "(!(" + strings.TrimSpace(parts[i]) + ") || (" + res + "))"
	}
	return res
}

func splitTopStr(s, sep string) []string {
	var out []string
	depth := 0
	inStr := false
	start := 0
	for i := 0; i < len(s); i++ {
		c := s[i]
		if inStr {
			if c == '\\' {
				i++
			} else if c == '"' {
				inStr = false
			}
			continue
		}
		switch c {
		case '"':
			inStr = true
		case '(', '[', '{':
			depth++
		case ')', ']', '}':
			depth--
		default:
			if depth == 0 && strings.HasPrefix(s[i:], sep) {
				out = append(out, s[start:i])
				start = i + len(sep)
				i += len(sep) - 1
			}
		}
	}
	out = append(out, s[start:])
	return out
}

func matchClose(s string, i int) int {
	depth := 0
	inStr := false
	for j := i; j < len(s); j++ {
		c := s[j]
		if inStr {
			if c == '\\' {
				j++
			} else if c == '"' {
				inStr = false
			}
			continue
		}
		switch c {
		case '"':
			inStr = true
		case '(', '[', '{':
			depth++
		case ')', ']', '}':
			depth--
			if depth == 0 {
				return j
			}
		}
	}
	return -1
}
