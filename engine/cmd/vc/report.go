package main

import (
	"regexp"
	"encoding/json"
	"fmt"
	"os"
	"path/filepath"
	"sort"
	"strings"
	"time"
)

type Run struct {
	Prop       string
	Tier       string
	Seed       int
	Verif      string
	Repo       string
	Known      []KnownFinding
	Ledger     map[string]*LedgerEntry
	T0         time.Time
	W          *World
	Verbose    bool
	Cfg        *PropCfg
	Stale      []string
	GenSeconds float64

	nObl, nDischarged     int
	violations            []string
	knownSeen             []string
	undecided             []string
	depFailed             []string
	canaryPassed          []string
	solverTime            float64
	bySolver              map[string]int
	samples               []map[string]any
	vacuous               []string
}

var retSfxRe = regexp.MustCompile(`@ret\d+`)

// normName drops the return-point ordinal so that names are stable when a
// harmless edit adds or removes a return statement.
func normName(name string) string { return retSfxRe.ReplaceAllString(name, "") }

func (r *Run) knownFinding(name string) *KnownFinding {
	name = normName(name)
	for i := range r.Known {
		k := &r.Known[i]
		if k.Status == "fixed" {
			continue
		}
		if k.Obligation == name || (strings.HasSuffix(k.Obligation, "*") && strings.HasPrefix(name, strings.TrimSuffix(k.Obligation, "*"))) {
			return k
		}
	}
	return nil
}

func hasTag(tags []string, t string) bool {
	for _, x := range tags {
		if x == t {
			return true
		}
	}
	return false
}

func (r *Run) inLedger(fn, obl string) (bool, string) {
	e := r.Ledger[fn]
	if e == nil {
		return false, ""
	}
	obl = normName(obl)
	for _, o := range e.Obls {
		if o == obl {
			return true, e.SSAHash
		}
	}
	return false, e.SSAHash
}

func (r *Run) report(results []*FuncResult, d *Discharger) int {
	r.bySolver = map[string]int{}
	exit := 0
	for _, fr := range results {
		if fr.Unsupported != "" {
			msg := fmt.Sprintf("%s: outside the supported subset: %s", fr.Name, fr.Unsupported)
			fmt.Println("UNDECIDED:", msg)
			r.undecided = append(r.undecided, msg)
		}
		for _, n := range fr.Notes {
			if strings.HasPrefix(n, "STALE-CONTRACT") {
				fmt.Println("UNDECIDED:", n)
				r.undecided = append(r.undecided, n)
				r.Stale = append(r.Stale, n)
			} else if r.Verbose {
				fmt.Println("note:", fr.Name+":", n)
			}
		}
		vac := false
		for _, o := range fr.Obls {
			if o.Kind == "cover" && o.Result != nil && o.Result.Status == "unsat" {
				vac = true
				msg := fmt.Sprintf("VACUOUS: %s: assumptions are contradictory (%s)", fr.Name, o.Name)
				fmt.Println("UNDECIDED:", msg)
				r.vacuous = append(r.vacuous, msg)
				r.undecided = append(r.undecided, msg)
			}
		}
		for _, o := range fr.Obls {
			res := o.Result
			if res == nil {
				continue
			}
			r.solverTime += res.Seconds
			if o.Kind == "cover" {
				continue
			}
			if r.Verbose {
				fmt.Printf("  %-8s %-8s %6.2fs %s\n", res.Status, res.Solver, res.Seconds, o.Name)
			}
			isCanary := o.Case != "" || o.Canary
			if !isCanary {
				r.nObl++
			}
			switch res.Status {
			case "unsat":
				if vac {
					continue
				}
				if isCanary {
					r.canaryPassed = append(r.canaryPassed, o.Name)
					continue
				}
				r.nDischarged++
				r.bySolver[res.Solver]++
				if len(r.samples) < 4 && res.Solver != "syntactic" {
					r.samples = append(r.samples, map[string]any{"obligation": o.Name, "verdict": "unsat (proved)", "solver": res.Solver, "seconds": res.Seconds,
						"goal_smt": truncate(o.Goal.String(), 600), "query_bytes": res.Bytes})
				}
			case "sat":
				if k := r.knownFinding(o.Name); k != nil {
					line := fmt.Sprintf("KNOWN-FINDING: property=%s %s [%s]", k.Property, k.What, o.Name)
					fmt.Println(line)
					r.knownSeen = append(r.knownSeen, o.Name)
					if !isCanary {
						r.nObl--
					}
					continue
				}
				mine := hasTag(o.Tags, r.Prop)
				if !mine {
					msg := fmt.Sprintf("DEPENDENCY-FAILED: %s (belongs to %v) refuted; %s obligations depending on it are undecided", o.Name, o.Tags, r.Prop)
					fmt.Println(msg)
					r.depFailed = append(r.depFailed, o.Name)
					r.undecided = append(r.undecided, msg)
					continue
				}
				inLedger, oldHash := r.inLedger(fr.Name, o.Name)
				if !inLedger && oldHash != "" && oldHash != fr.SSAHash {
					// a new obligation (new program point) of a function that verified on the unchanged tree and
					// whose code has changed since: a counter-model under the function's own contract counts
					inLedger = true
				}
				if o.Case != "" && !o.Canary {
					// the variant of an obligation inside a carved-out input region is judged like the obligation itself
					if in2, _ := r.inLedger(fr.Name, strings.TrimSuffix(o.Name, "@"+o.Case)); in2 {
						inLedger = true
					}
				}
				path, confirmed := r.replay(o, fr)
				switch {
				case confirmed:
					fmt.Printf("VIOLATION property=%s replay=%s\n", r.Prop, path)
					r.violations = append(r.violations, o.Name)
					exit = 1
				case inLedger || o.Canary:
					fmt.Printf("VIOLATION property=%s replay=%s no-failing-input-found\n", r.Prop, path)
					r.violations = append(r.violations, o.Name)
					exit = 1
				default:
					msg := fmt.Sprintf("%s refuted by the solver but it is not a baseline obligation and the model did not replay on the real code (see %s)", o.Name, path)
					fmt.Println("UNDECIDED:", msg)
					r.undecided = append(r.undecided, msg)
				}
			default:
				if isCanary {
					// a canary marks a recorded finding: it is expected not to discharge. With
					// quantified hypotheses the solvers answer unknown rather than sat.
					if k := r.knownFinding(o.Name); k != nil {
						fmt.Printf("KNOWN-FINDING: property=%s %s [%s; not discharged, solver: %s]\n", k.Property, k.What, o.Name, res.Status)
						r.knownSeen = append(r.knownSeen, o.Name)
					}
					continue
				}
				inLedger, oldHash := r.inLedger(fr.Name, o.Name)
				if inLedger && oldHash != fr.SSAHash {
					path := r.writeReplayFile(o, fr, "obligation discharged on the unchanged tree no longer discharges after a change to "+fr.Name+": solver "+res.Status)
					if drv := r.driverFor(o.Name); drv != nil {
						// no counter-model, but a driver that searches for the failure on the real code
						if p2, confirmed := r.replayWith(o, fr, path, drv); confirmed {
							fmt.Printf("VIOLATION property=%s replay=%s\n", r.Prop, p2)
							r.violations = append(r.violations, o.Name)
							exit = 1
							continue
						}
					}
					fmt.Printf("VIOLATION property=%s replay=%s no-failing-input-found\n", r.Prop, path)
					r.violations = append(r.violations, o.Name)
					exit = 1
					continue
				}
				if drv := r.driverFor(o.Name); drv != nil && hasTag(o.Tags, r.Prop) {
					// not decided by the solvers, but a registered driver looks for the failure on the real code: a
					// failing input found there is a violation whatever the proof status
					path := r.writeReplayFile(o, fr, "obligation not discharged (solver "+res.Status+"); searching the real code with the registered replay driver")
					if p2, confirmed := r.replayWith(o, fr, path, drv); confirmed {
						fmt.Printf("VIOLATION property=%s replay=%s\n", r.Prop, p2)
						r.violations = append(r.violations, o.Name)
						exit = 1
						continue
					}
				}
				msg := fmt.Sprintf("%s: solver answered %s (%v) %s", o.Name, res.Status, res.Answers, truncate(res.Output, 300))
				fmt.Println("UNDECIDED:", msg)
				r.undecided = append(r.undecided, msg)
			}
		}
	}
	fmt.Printf("%s %s: %d obligations, %d discharged, %d violations, %d known findings, %d undecided; gen %.1fs, solver cpu %.1fs, wall %.1fs\n",
		r.Prop, r.Tier, r.nObl, r.nDischarged, len(r.violations), len(r.knownSeen), len(r.undecided), r.GenSeconds, r.solverTime, time.Since(r.T0).Seconds())
	return exit
}

func (r *Run) writeReplayFile(o *Obligation, fr *FuncResult, reason string) string {
	dir := filepath.Join(r.Verif, "evidence", "replays")
	os.MkdirAll(dir, 0o755)
	path := filepath.Join(dir, fmt.Sprintf("%s-%s.json", r.Prop, sanitize(truncate(o.Name, 120))))
	rec := map[string]any{
		"property":   r.Prop,
		"obligation": o.Name,
		"function":   fr.Name,
		"position":   o.Pos.String(),
		"reason":     reason,
		"goal_smt":   truncate(o.Goal.String(), 4000),
	}
	if o.Result != nil {
		rec["solver"] = o.Result.Solver
		rec["solver_status"] = o.Result.Status
		rec["solver_output"] = o.Result.Output
		rec["model_values"] = parseValues(o)
	}
	data, _ := json.MarshalIndent(rec, "", " ")
	os.WriteFile(path, data, 0o644)
	return path
}

// parseValues pairs the requested value names with the solver's get-value answer.
func parseValues(o *Obligation) map[string]string {
	out := map[string]string{}
	if o.Result == nil || o.Result.Model == "" {
		return out
	}
	vals := splitGetValue(o.Result.Model)
	for i, v := range o.Values {
		if i < len(vals) {
			out[v.Name] = vals[i]
		}
	}
	return out
}

// splitGetValue parses "((t1 v1) (t2 v2) ...)" into the value strings.
func splitGetValue(s string) []string {
	s = strings.TrimSpace(s)
	if !strings.HasPrefix(s, "(") {
		return nil
	}
	// strip outer parens
	depth := 0
	var items []string
	start := -1
	for i := 0; i < len(s); i++ {
		switch s[i] {
		case '(':
			depth++
			if depth == 2 {
				start = i
			}
		case ')':
			if depth == 2 && start >= 0 {
				items = append(items, s[start:i+1])
				start = -1
			}
			depth--
			if depth == 0 {
				i = len(s)
			}
		}
	}
	var out []string
	for _, it := range items {
		inner := strings.TrimSpace(it[1 : len(it)-1])
		// the value is the last s-expression
		out = append(out, lastSexp(inner))
	}
	return out
}

func lastSexp(s string) string {
	s = strings.TrimSpace(s)
	if strings.HasSuffix(s, ")") {
		depth := 0
		for i := len(s) - 1; i >= 0; i-- {
			switch s[i] {
			case ')':
				depth++
			case '(':
				depth--
				if depth == 0 {
					return s[i:]
				}
			}
		}
		return s
	}
	i := strings.LastIndexAny(s, " \t\n")
	return s[i+1:]
}

func (r *Run) updateLedger(results []*FuncResult, path string) {
	for _, fr := range results {
		e := &LedgerEntry{SSAHash: fr.SSAHash}
		good := map[string]bool{}
		for _, o := range fr.Obls {
			if o.Kind == "cover" || o.Case != "" || o.Canary || o.Result == nil {
				continue
			}
			n := normName(o.Name)
			ok := o.Result.Status == "unsat" && o.Result.Seconds < 2.0
			if prev, seen := good[n]; seen {
				good[n] = prev && ok
			} else {
				good[n] = ok
			}
		}
		for n, ok := range good {
			if ok {
				e.Obls = append(e.Obls, n)
			}
		}
		sort.Strings(e.Obls)
		if old := r.Ledger[fr.Name]; old != nil {
			// merge: other properties verify the same function with other options
			seen := map[string]bool{}
			for _, o := range e.Obls {
				seen[o] = true
			}
			for _, o := range old.Obls {
				if !seen[o] && strings.Contains(o, "#safety") != r.Cfg.Safety {
					e.Obls = append(e.Obls, o)
				}
			}
			sort.Strings(e.Obls)
		}
		r.Ledger[fr.Name] = e
	}
	os.MkdirAll(filepath.Dir(path), 0o755)
	data, _ := json.MarshalIndent(r.Ledger, "", " ")
	os.WriteFile(path, data, 0o644)
}

func (r *Run) writeEvidence(results []*FuncResult) {
	level := "proof"
	if len(r.undecided) > 0 || len(r.Stale) > 0 || r.nObl == 0 || r.nDischarged != r.nObl {
		level = "other"
	}
	var fns, lemmas, trusted, assumptions []string
	tset := map[string]bool{}
	loops, loopsInv := 0, 0
	used := map[string]bool{}
	inl := map[string]bool{}
	for _, fr := range results {
		if fr.Kind == "lemma" {
			lemmas = append(lemmas, fr.Name)
		} else {
			fns = append(fns, fr.Name)
		}
		loops += fr.Loops
		loopsInv += fr.LoopsInv
		for _, t := range fr.Trusted {
			tset[t] = true
		}
		for _, u := range fr.Used {
			used[u] = true
		}
		for _, u := range fr.Inlined {
			inl[u] = true
		}
	}
	trusted = sortedKeys(tset)
	assumptions = append(assumptions,
		"go/packages+go/types+go/ssa (x/tools v0.50.0) implement Go; the SSA->SMT encoding of /verif/engine and the solvers z3 5.1.0, z3 4.8.12, cvc5 1.0.3 are correct",
		"partial correctness only: termination, blocking and deadlock are not proved; goroutine bodies are not followed at the spawn site",
		"signed integers are mathematical (no overflow), unsigned integers wrap exactly modulo 2^w; float64 is modelled as a real (no rounding); strings are uninterpreted with length",
	)
	assumptions = append(assumptions, trusted...)
	if r.Cfg != nil && r.Cfg.Note != "" {
		assumptions = append(assumptions, r.Cfg.Note)
	}
	cov := map[string]any{
		"obligations":              r.nObl,
		"discharged":               r.nDischarged,
		"checker_cmd":              fmt.Sprintf("/verif/check %s %s  (= /verif/bin/vc check -prop %s -tier %s; SMT queries raced on z3-new, z3, cvc5)", r.Prop, r.Tier, r.Prop, r.Tier),
		"trusted_base":             trusted,
		"functions_under_contract": fns,
		"lemmas":                   lemmas,
		"callee_contracts_used":    sortedKeys(used),
		"functions_inlined":        sortedKeys(inl),
		"loops":                    loops,
		"loops_with_invariants":    loopsInv,
		"discharged_by_solver":     r.bySolver,
		"solver_seconds":           r.solverTime,
		"vc_generation_seconds":    r.GenSeconds,
		"known_findings_seen":      r.knownSeen,
		"canary_obligations_now_passing": r.canaryPassed,
		"undecided":                r.undecided,
		"dependency_failed":        r.depFailed,
		"stale_contracts":          r.Stale,
		"violating_obligations":    r.violations,
		"samples":                  r.samples,
		"explanation":              "contract-based deductive verification: verification conditions generated from the go/ssa form of the functions in /repo's working tree and their //@ contracts, each discharged (unsat) by an SMT solver; level is downgraded to 'other' when any obligation is undecided",
	}
	if len(r.samples) == 0 {
		cov["samples"] = []any{"no solver-discharged obligation in this run"}
	}
	ev := map[string]any{
		"property_id": r.Prop,
		"tier":        r.Tier,
		"seed":        r.Seed,
		"level":       level,
		"coverage":    cov,
		"assumptions": assumptions,
		"wall_s":      time.Since(r.T0).Seconds(),
		"violations":  len(r.violations),
	}
	if level == "other" {
		// the generic fallback keys are not applicable; explanation is present
	}
	dir := filepath.Join(r.Verif, "evidence")
	os.MkdirAll(dir, 0o755)
	data, _ := json.MarshalIndent(ev, "", " ")
	os.WriteFile(filepath.Join(dir, r.Prop+".json"), data, 0o644)
}
