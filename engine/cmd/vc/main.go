package main

import (
	"encoding/json"
	"flag"
	"fmt"
	"os"
	"path/filepath"
	"sort"
	"strconv"
	"strings"
	"time"

	"golang.org/x/tools/go/ssa"
)

type PropCfg struct {
	Packages  []string `json:"packages"`
	Functions []string `json:"functions"` // extra functions under contract verified with the property
	Lemmas    []string `json:"lemmas"`
	Safety    bool     `json:"safety"`
	Locks     bool     `json:"locks"`
	Bounded   []string `json:"bounded"` // bounded stand-ins (commands), reported separately
	Replay    map[string]string `json:"replay"` // obligation-name prefix -> replay driver
	Note      string   `json:"note"`
	Drivers   []ReplayDriver `json:"drivers"` // replay drivers (real-code tests) by obligation name
}

type KnownFinding struct {
	Property   string `json:"property"`
	Obligation string `json:"obligation"`
	What       string `json:"what"`
	Status     string `json:"status"` // "known" or "fixed"
	Commit     string `json:"commit,omitempty"`
}

type LedgerEntry struct {
	SSAHash string   `json:"ssa_hash"`
	Obls    []string `json:"obligations"`
}

func main() {
	if len(os.Args) < 2 {
		fmt.Fprintln(os.Stderr, "usage: vc check|dump|ghost ...")
		os.Exit(2)
	}
	switch os.Args[1] {
	case "check":
		os.Exit(cmdCheck(os.Args[2:]))
	case "dump":
		cmdDump(os.Args[2:])
	case "replay":
		os.Exit(cmdReplay(os.Args[2:]))
	default:
		fmt.Fprintln(os.Stderr, "unknown command")
		os.Exit(2)
	}
}

func cmdDump(args []string) {
	fs := flag.NewFlagSet("dump", flag.ExitOnError)
	repo := fs.String("repo", "/repo", "")
	pkg := fs.String("pkg", "./serf", "")
	fs.Parse(args)
	w, err := Load(*repo, []string{*pkg}, "/verif/contracts")
	if err != nil {
		fmt.Fprintln(os.Stderr, err)
		os.Exit(2)
	}
	for _, sp := range w.spkgs {
		for _, name := range fs.Args() {
			fn := w.findFunc(sp, name)
			if fn == nil {
				fmt.Println("not found:", name)
				continue
			}
			fn.WriteTo(os.Stdout)
			for _, af := range fn.AnonFuncs {
				af.WriteTo(os.Stdout)
			}
		}
	}
}

func envInt(name string, def int) int {
	if v := os.Getenv(name); v != "" {
		if n, err := strconv.Atoi(v); err == nil {
			return n
		}
	}
	return def
}

func cmdCheck(args []string) int {
	fs := flag.NewFlagSet("check", flag.ExitOnError)
	repo := fs.String("repo", "/repo", "repository under verification")
	verif := fs.String("verif", "/verif", "verification directory")
	prop := fs.String("prop", "", "property id")
	tier := fs.String("tier", "quick", "quick|thorough")
	only := fs.String("only", "", "verify only this function/lemma (debug)")
	keep := fs.Bool("keep", false, "keep SMT files")
	noEvidence := fs.Bool("no-evidence", false, "do not write evidence (used by selftest runs on copies)")
	updateLedger := fs.Bool("update-ledger", false, "record discharged obligations in the baseline ledger")
	verbose := fs.Bool("v", false, "verbose")
	forceSafety := fs.Bool("safety", false, "generate run-time safety obligations even if the property's configuration has them off")
	fs.Parse(args)
	t0 := time.Now()
	seed := envInt("VERIF_SEED", 0)
	if t := os.Getenv("VERIF_TIER"); t != "" && *tier == "" {
		*tier = t
	}
	var props map[string]*PropCfg
	data, err := os.ReadFile(filepath.Join(*verif, "props.json"))
	if err != nil {
		fmt.Fprintln(os.Stderr, "cannot read props.json:", err)
		return 2
	}
	if err := json.Unmarshal(data, &props); err != nil {
		fmt.Fprintln(os.Stderr, "props.json:", err)
		return 2
	}
	pc := props[*prop]
	if pc == nil {
		fmt.Fprintln(os.Stderr, "unknown property", *prop)
		return 2
	}
	var known []KnownFinding
	if data, err := os.ReadFile(filepath.Join(*verif, "known_findings.json")); err == nil {
		json.Unmarshal(data, &known)
	}
	ledger := map[string]*LedgerEntry{}
	ledgerPath := filepath.Join(*verif, "baseline", "ledger.json")
	if data, err := os.ReadFile(ledgerPath); err == nil {
		json.Unmarshal(data, &ledger)
	}

	w, err := Load(*repo, pc.Packages, filepath.Join(*verif, "contracts"))
	run := &Run{Prop: *prop, Tier: *tier, Seed: seed, Verif: *verif, Repo: *repo, Known: known, Ledger: ledger, T0: t0, Verbose: *verbose, Cfg: pc}
	if err != nil {
		if se, ok := err.(*StaleError); ok {
			run.Stale = se.Msgs
			fmt.Println("UNDECIDED: STALE-CONTRACT: the contracts no longer type-check against the tree:")
			for _, m := range se.Msgs {
				fmt.Println("  ", m)
			}
			// No obligation can be generated from contracts that do not apply to the code any more. That is not a
			// verdict on the property; but a change that breaks the property must not slip through either: the
			// property's replay drivers (real-code tests under /verif/replay) are run against the tree, and a failure
			// they reproduce is reported as the violation, under the obligation name "contracts-apply".
			rc := 0
			seenDrv := map[string]bool{}
			for i := range pc.Drivers {
				d := &pc.Drivers[i]
				if seenDrv[d.File+":"+d.Test] {
					continue
				}
				seenDrv[d.File+":"+d.Test] = true
				out, confirmed := run.runDriver(d, map[string]string{})
				if confirmed {
					o := &Obligation{Name: "contracts-apply", Kind: "stale", Goal: TTrue}
					path := run.writeReplayFile(o, &FuncResult{Name: "(contracts of " + *prop + ")"}, "the contracts no longer type-check against the tree ("+strings.Join(se.Msgs, "; ")+"); replay driver "+d.File+":"+d.Test+" reproduced a failure on the real code:\n"+out)
					fmt.Printf("VIOLATION property=%s replay=%s\n", *prop, path)
					fmt.Printf("  REPLAY-CONFIRMED by %s:%s on the real code\n", d.File, d.Test)
					rc = 1
				} else {
					fmt.Printf("  replay driver %s:%s did not reproduce a failure on this tree\n", d.File, d.Test)
				}
			}
			if !*noEvidence {
				run.writeEvidence(nil)
			}
			return rc
		}
		fmt.Fprintln(os.Stderr, "load:", err)
		return 2
	}
	w.safetyTags = []string{*prop}
	w.lockTags = []string{*prop}
	run.W = w
	for _, s := range w.stale {
		fmt.Println("UNDECIDED: STALE-CONTRACT:", s)
		run.Stale = append(run.Stale, s)
	}
	// select functions: clauses tagged with the property + listed extras
	var results []*FuncResult
	selected := map[string]bool{}
	for _, f := range pc.Functions {
		selected[f] = true
	}
	var names []string
	for name, lc := range w.byName {
		if lc.C.Trusted {
			continue
		}
		for _, cl := range lc.C.Clauses {
			for _, t := range splitTags(cl.Tags) {
				if t == *prop {
					selected[name] = true
				}
			}
		}
	}
	listedOnly := map[string]bool{}
	for _, f := range pc.Functions {
		listedOnly[f] = true
	}
	for name, lc := range w.byName {
		for _, cl := range lc.C.Clauses {
			if hasTag(splitTags(cl.Tags), *prop) {
				delete(listedOnly, name)
			}
		}
	}
	for name := range selected {
		names = append(names, name)
	}
	sort.Strings(names)
	opts := VerifyOpts{Safety: pc.Safety || *forceSafety, LockChecks: pc.Locks}
	for _, name := range names {
		if *only != "" && !strings.Contains(name, *only) {
			continue
		}
		lc := w.byName[name]
		if lc == nil {
			fmt.Printf("UNDECIDED: STALE-CONTRACT: function %s listed for %s has no contract\n", name, *prop)
			run.Stale = append(run.Stale, "no contract for "+name)
			continue
		}
		fr := w.VerifyFunc(lc, opts)
		if listedOnly[name] {
			// listed for its run-time safety only (the property is "does not panic"): its functional postconditions
			// belong to, and are proved under, the properties they are tagged with
			var keep []*Obligation
			for _, o := range fr.Obls {
				if o.Kind != "post" {
					keep = append(keep, o)
				}
			}
			fr.Obls = keep
		}
		results = append(results, fr)
	}
	var lemmaNames []string
	for name, ll := range w.lemmas {
		for _, t := range splitTags(ll.L.Tags) {
			if t == *prop {
				lemmaNames = append(lemmaNames, name)
			}
		}
	}
	sort.Strings(lemmaNames)
	for _, name := range lemmaNames {
		if *only != "" && !strings.Contains(name, *only) {
			continue
		}
		results = append(results, w.VerifyLemma(name, w.lemmas[name]))
	}
	tgen := time.Since(t0)
	// discharge
	dir, err := os.MkdirTemp("/var/tmp", "vc-smt-")
	if err != nil {
		fmt.Fprintln(os.Stderr, err)
		return 2
	}
	if !*keep {
		defer os.RemoveAll(dir)
	} else {
		fmt.Println("SMT files in", dir)
	}
	timeout := envInt("VC_TIMEOUT", 30)
	if *tier == "thorough" {
		timeout = envInt("VC_TIMEOUT", 120)
	}
	d := NewDischarger(dir, timeout, seed, 16, *tier == "thorough")
	var all []*Obligation
	for _, r := range results {
		all = append(all, r.Obls...)
	}
	d.DischargeAll(all)
	run.GenSeconds = tgen.Seconds()
	code := run.report(results, d)
	if *updateLedger {
		run.updateLedger(results, ledgerPath)
	}
	if !*noEvidence {
		run.writeEvidence(results)
	}
	return code
}

var _ = ssa.NaiveForm
