package main

import (
	"fmt"
	"go/token"
	"go/types"
	"strings"

	"golang.org/x/tools/go/ssa"
)

// funcKey is the contract key of a function: [pkg.]Recv.Name for functions
// outside the package of the contracts file, Recv.Name inside.
func (w *World) funcKey(fn *ssa.Function) string {
	name := fn.Name()
	recv := ""
	if fn.Signature.Recv() != nil {
		t := fn.Signature.Recv().Type()
		if p, ok := t.(*types.Pointer); ok {
			t = p.Elem()
		}
		if n, ok := t.(*types.Named); ok {
			recv = n.Obj().Name()
		}
	}
	k := name
	if recv != "" {
		k = recv + "." + name
	}
	return k
}

func fnPkgPath(fn *ssa.Function) string {
	if fn.Pkg != nil {
		return fn.Pkg.Pkg.Path()
	}
	if fn.Signature.Recv() != nil {
		t := fn.Signature.Recv().Type()
		if p, ok := t.(*types.Pointer); ok {
			t = p.Elem()
		}
		if n, ok := t.(*types.Named); ok && n.Obj().Pkg() != nil {
			return n.Obj().Pkg().Path()
		}
	}
	if o := fn.Origin(); o != nil && o != fn {
		return fnPkgPath(o)
	}
	if fn.Parent() != nil {
		return fnPkgPath(fn.Parent())
	}
	return ""
}

func fullName(fn *ssa.Function) string {
	return fn.String()
}

// call dispatches a call instruction.
func (fr *Frame) call(st *State, cc *ssa.CallCommon, instr ssa.Instruction, pos token.Pos) Val {
	ex := fr.ex
	if b, ok := cc.Value.(*ssa.Builtin); ok {
		return fr.builtin(st, b, cc, pos, instr)
	}
	var args []Val
	if cc.IsInvoke() {
		recv := fr.val(st, cc.Value)
		for _, a := range cc.Args {
			args = append(args, fr.val(st, a))
		}
		return fr.invoke(st, cc, recv, args, pos, instr)
	}
	skip := 0
	if fn := cc.StaticCallee(); fn != nil {
		switch fn.Name() {
		case "__requires", "__ensures", "__invariant", "__canary", "__assert":
			skip = 2 // clause name and tags are read from the constants, not evaluated
		case "__case", "__logN":
			skip = 1
		}
		if o := fn.Origin(); o != nil && o.Name() == "__logAt" {
			skip = 1
		}
	}
	for i, a := range cc.Args {
		if i < skip {
			args = append(args, Val{})
			continue
		}
		args = append(args, fr.val(st, a))
	}
	if fn := cc.StaticCallee(); fn != nil {
		var free []Val
		if mc, ok := cc.Value.(*ssa.MakeClosure); ok {
			free = fr.val(st, mc).Clo.Bind
		}
		return fr.callStatic(st, fn, args, free, pos, instr, cc)
	}
	// dynamic call through a function value
	fv := fr.val(st, cc.Value)
	if fv.Clo != nil {
		return fr.callStatic(st, fv.Clo.Fn, args, fv.Clo.Bind, pos, instr, cc)
	}
	if fv.T != nil {
		if c := ex.w.lookupClo(ex, fv.T); c != nil {
			return fr.callStatic(st, c.Fn, args, c.Bind, pos, instr, cc)
		}
	}
	// unknown function value (callback stored in a field, parameter): abstracted as a
	// deterministic, effect-free function of the function value and its scalar arguments
	res := cc.Signature().Results()
	allTerms := fv.T != nil
	for _, a := range args {
		if a.T == nil {
			allTerms = false
		}
	}
	if allTerms && res.Len() == 1 {
		if ex.ghost == 0 {
			ex.trusted["callbacks called through function values (e.g. Config.messageDropper): deterministic, no effect on modelled state"] = true
		}
		ts := []*Term{fv.T}
		for _, a := range args {
			ts = append(ts, a.T)
		}
		rt := res.At(0).Type()
		v := ex.ctx.UF("dyncall."+sanitize(mangleType(cc.Signature())), ex.ctx.SortOf(rt), ts...)
		if ex.ghost == 0 {
			ex.assume(st, ex.typeFacts(v, rt))
		}
		return Val{T: v}
	}
	ex.note("call through unknown function value at %s: result havoc, no heap effect assumed", fr.pos(pos))
	return fr.havocResult(st, res, "dyncall")
}

func (fr *Frame) havocResult(st *State, res *types.Tuple, prefix string) Val {
	ex := fr.ex
	mk := func(t types.Type) Val {
		v := ex.ctx.Fresh(prefix, ex.ctx.SortOf(t))
		if ex.ghost == 0 {
			ex.assume(st, ex.typeFacts(v, t))
			fr.loadFacts(st, v, t)
		}
		return Val{T: v}
	}
	switch res.Len() {
	case 0:
		return Val{}
	case 1:
		return mk(res.At(0).Type())
	}
	var tup []Val
	for i := 0; i < res.Len(); i++ {
		tup = append(tup, mk(res.At(i).Type()))
	}
	return Val{Tup: tup}
}

func (fr *Frame) callStatic(st *State, fn *ssa.Function, args, free []Val, pos token.Pos, instr ssa.Instruction, cc *ssa.CallCommon) Val {
	ex := fr.ex
	name := fn.Name()
	if o := fn.Origin(); o != nil {
		name = o.Name()
	}
	// ghost prelude
	if strings.HasPrefix(name, "__") {
		if v, ok := fr.preludeCall(st, name, fn, args, pos, cc); ok {
			return v
		}
	}
	pkg := fnPkgPath(fn)
	// user contract?
	if c := ex.w.contractFor(fn, fr.fn); c != nil && !(fr.depth == 0 && false) {
		return fr.applyContract(st, fn, c, args, pos)
	}
	// library handles whose methods dereference the receiver: calling them on a nil pointer panics
	if ex.ghost == 0 && !ex.w.inScope(pkg) && fn.Signature.Recv() != nil && len(args) > 0 && args[0].T != nil && args[0].T.Sort == SRef {
		if _, isPtr := fn.Signature.Recv().Type().(*types.Pointer); isPtr {
			switch pkg + "." + recvName(fn) {
			case "bufio.Writer", "bufio.Reader", "bufio.Scanner", "bufio.ReadWriter":
				fr.safetyNamed(st, "nil", Neq(args[0].T, TNull), pos, "method of a nil *"+pkg+"."+recvName(fn), instr)
			}
		}
	}
	// modelled library function?
	if v, ok := fr.intercept(st, fn, pkg, args, pos, instr); ok {
		return v
	}
	// inline in-scope functions
	if ex.w.inScope(pkg) && len(fn.Blocks) > 0 {
		if fr.depth >= ex.depthMax+ex.ghost*3 || fr.recursive(fn) {
			ex.note("call to %s not inlined (depth/recursion) at %s: result havoc, frame havoc skipped", fn, fr.pos(pos))
			return fr.havocResult(st, fn.Signature.Results(), "call."+fn.Name())
		}
		return fr.inline(st, fn, args, free, pos)
	}
	if len(fn.Blocks) > 0 && ex.ghost > 0 {
		return fr.inline(st, fn, args, free, pos)
	}
	ex.note("call to unmodelled external %s at %s: result havoc, no effect on modelled state assumed", fn, fr.pos(pos))
	ex.trusted["extern: "+fn.String()+" (result arbitrary; locals passed by address are havoc; no other modelled effect)"] = true
	fr.havocPointees(st, args)
	rv := fr.havocResult(st, fn.Signature.Results(), "ext."+fn.Name())
	fr.countLibFailure(st, fn, rv)
	return rv
}

// countLibFailure: a library call outside the verified code that returns an error may fail for reasons of its own
// (a transient fault); the ghost counter LibFailN counts those failures, so that a contract can say what the code
// does when nothing failed.
func (fr *Frame) countLibFailure(st *State, fn *ssa.Function, rv Val) {
	ex := fr.ex
	if ex.ghost > 0 {
		return
	}
	res := fn.Signature.Results()
	if res.Len() == 0 || !types.Identical(res.At(res.Len()-1).Type(), types.Universe.Lookup("error").Type()) {
		return
	}
	e := rv.T
	if res.Len() > 1 {
		if len(rv.Tup) != res.Len() {
			return
		}
		e = rv.Tup[res.Len()-1].T
	}
	if e == nil || e.Sort != SIfc {
		return
	}
	n := ex.get(st, "LibFailN", SInt)
	ex.set(st, "LibFailN", Add(n, Ite(Eq(e, V("iface_nil", SIfc)), IntLit(0), IntLit(1))))
}

// havocPointees overwrites the locals whose address is handed to unknown code.
func (fr *Frame) havocPointees(st *State, args []Val) {
	ex := fr.ex
	for _, a := range args {
		l := a.L
		if l == nil && a.T != nil && ex.boxedLocs != nil {
			l = ex.boxedLocs[a.T.Op]
		}
		if l == nil || l.Comp == "" || ex.ghost > 0 {
			continue
		}
		v := ex.ctx.Fresh("out."+sanitize(l.Comp), ex.ctx.SortOf(l.Elem))
		ex.assume(st, ex.typeFacts(v, l.Elem))
		fr.loadFacts(st, v, l.Elem)
		ex.store(st, l, v)
	}
}

func (fr *Frame) recursive(fn *ssa.Function) bool {
	for f := fr; f != nil; f = f.outer {
		if f.fn == fn {
			return true
		}
	}
	return false
}

// inline executes the callee body in the caller's state.
func (fr *Frame) inline(st *State, fn *ssa.Function, args, free []Val, pos token.Pos) Val {
	ex := fr.ex
	if ex.ghost == 0 {
		ex.inlined[fn.String()] = true
		if ex.inlinedFns == nil {
			ex.inlinedFns = map[*ssa.Function]bool{}
		}
		ex.inlinedFns[fn] = true
	}
	sub := ex.newFrame(fn, args, free, fr)
	sub.callPos = pos
	callerPC := st.pc
	if ex.ghost > 0 {
		// ghost code is pure: the value of a call does not depend on how it was reached
		st.pc = TTrue
	}
	exit, vals := sub.run(st)
	if exit == nil {
		// callee never returns normally
		st.pc = TFalse
		return fr.havocResult(st, fn.Signature.Results(), "noret")
	}
	// continue in the exit state
	st.pc = exit.pc
	if ex.ghost > 0 {
		st.pc = callerPC
	}
	st.heap = exit.heap
	st.defers = exit.defers
	switch len(vals) {
	case 0:
		return Val{}
	case 1:
		return vals[0]
	}
	return Val{Tup: vals}
}

// ---------------------------------------------------------------- defers, go

func (fr *Frame) runDefers(st *State) {
	ex := fr.ex
	// run this frame's defers in reverse order
	var mine []deferEntry
	var rest []deferEntry
	for _, d := range st.defers {
		if d.fr == fr {
			mine = append(mine, d)
		} else {
			rest = append(rest, d)
		}
	}
	st.defers = rest
	for i := len(mine) - 1; i >= 0; i-- {
		d := mine[i]
		cond := d.cond
		if cond.Op != "true" {
			// conditional execution
			if ex.implied(st, cond) {
				cond = TTrue
			}
		}
		if cond.Op == "true" {
			fr.call(st, &d.instr.Call, d.instr, d.instr.Pos())
			continue
		}
		sub := st.clone()
		sub.pc = And(st.pc, cond)
		fr.call(sub, &d.instr.Call, d.instr, d.instr.Pos())
		for k, v := range sub.heap {
			if old, ok := st.heap[k]; !ok || old != v {
				ex.set(st, k, Ite(cond, v, ex.get(st, k, ex.compSort[k])))
			}
		}
	}
}

// implied reports whether cond follows syntactically from the path condition.
func (ex *Exec) implied(st *State, cond *Term) bool {
	if sameTerm(st.pc, cond) {
		return true
	}
	if st.pc.Op == "and" {
		for _, a := range st.pc.Args {
			if sameTerm(a, cond) {
				return true
			}
		}
	}
	return false
}

func (fr *Frame) goStmt(st *State, in *ssa.Go) {
	ex := fr.ex
	// goroutine bodies are verified separately; record the spawn
	name := "?"
	if f := in.Call.StaticCallee(); f != nil {
		name = ex.w.funcKey(f)
	}
	ex.spawned = append(ex.spawned, name)
	n := ex.get(st, "SpawnN", SInt)
	id := ex.w.spawnID(name)
	var args []Val
	for _, a := range in.Call.Args {
		args = append(args, fr.val(st, a))
	}
	log := ex.get(st, "SpawnFn", ArraySort(SInt, SInt))
	ex.set(st, "SpawnFn", Store(log, n, IntLit(int64(id))))
	// first integer argument (used for LTime-carrying spawns)
	a0 := IntLit(0)
	for _, a := range args {
		if a.T != nil && a.T.Sort == SInt {
			a0 = a.T
			break
		}
	}
	la := ex.get(st, "SpawnArg", ArraySort(SInt, SInt))
	ex.set(st, "SpawnArg", Store(la, n, a0))
	ex.set(st, "SpawnN", Add(n, IntLit(1)))
}

// ---------------------------------------------------------------- builtins

func (fr *Frame) builtin(st *State, b *ssa.Builtin, cc *ssa.CallCommon, pos token.Pos, instr ssa.Instruction) Val {
	ex := fr.ex
	var args []Val
	for _, a := range cc.Args {
		args = append(args, fr.val(st, a))
	}
	switch b.Name() {
	case "len":
		x := args[0]
		switch u := cc.Args[0].Type().Underlying().(type) {
		case *types.Slice:
			return Val{T: ex.ghostRange(SLen(x.T), IntLit(0), nil)}
		case *types.Basic:
			t := App("str_len", SInt, x.T)
			if ex.ghost == 0 {
				ex.assume(st, Le(IntLit(0), t))
			}
			return Val{T: t}
		case *types.Map:
			t := ex.mapLen(st, cc.Args[0].Type(), x.T)
			if ex.ghost == 0 {
				ex.assume(st, Le(IntLit(0), t))
			}
			return Val{T: t}
		case *types.Array:
			return Val{T: IntLit(u.Len())}
		case *types.Pointer:
			return Val{T: IntLit(u.Elem().Underlying().(*types.Array).Len())}
		case *types.Chan:
			t := ex.ctx.Fresh("chanlen", SInt)
			ex.assume(st, Le(IntLit(0), t))
			return Val{T: t}
		}
	case "cap":
		if _, ok := cc.Args[0].Type().Underlying().(*types.Slice); ok {
			return Val{T: SCap(args[0].T)}
		}
		t := ex.ctx.Fresh("cap", SInt)
		ex.assume(st, Le(IntLit(0), t))
		return Val{T: t}
	case "append":
		st0 := cc.Args[0].Type().Underlying().(*types.Slice)
		_, isStr := cc.Args[1].Type().Underlying().(*types.Basic)
		return Val{T: fr.appendOp(st, args[0].T, args[1].T, st0.Elem(), isStr)}
	case "copy":
		return fr.copyOp(st, cc, args)
	case "delete":
		fr.guardCheckMap(st, cc.Args[0], true, pos)
		ex.mapDelete(st, cc.Args[0].Type(), args[0].T, args[1].T)
		return Val{}
	case "close":
		ch := args[0].T
		cc0 := "ChanClosed_" + typeKey(chanElem(cc.Args[0].Type()))
		closed := ex.get(st, cc0, ArraySort(SRef, SBool))
		fr.safetyNamed(st, "chan", And(Neq(ch, TNull), Not(Select(closed, ch))), pos, "close of nil or closed channel", instr)
		ex.set(st, cc0, Store(closed, ch, TTrue))
		return Val{}
	case "panic":
		fr.panics = append(fr.panics, retPoint{st.clone(), args})
		return Val{}
	case "print", "println":
		return Val{}
	case "min", "max":
		acc := args[0].T
		for _, a := range args[1:] {
			if b.Name() == "min" {
				acc = Ite(Lt(a.T, acc), a.T, acc)
			} else {
				acc = Ite(Gt(a.T, acc), a.T, acc)
			}
		}
		return Val{T: acc}
	case "ssa:wrapnilchk":
		return args[0]
	case "recover":
		return Val{T: V("iface_nil", SIfc)}
	case "clear":
		if mt, ok := cc.Args[0].Type().Underlying().(*types.Map); ok {
			_ = mt
			ex.mapClear(st, cc.Args[0].Type(), args[0].T)
			return Val{}
		}
		ex.unsupported("builtin clear on %s", cc.Args[0].Type())
	}
	ex.unsupported("builtin %s", b.Name())
	return Val{}
}

func (fr *Frame) copyOp(st *State, cc *ssa.CallCommon, args []Val) Val {
	ex := fr.ex
	dstT := cc.Args[0].Type().Underlying().(*types.Slice)
	dst := args[0].T
	c, cs := ex.elemsComp(dstT.Elem())
	es := ex.ctx.SortOf(dstT.Elem())
	var srcLen *Term
	_, srcIsStr := cc.Args[1].Type().Underlying().(*types.Basic)
	if srcIsStr {
		srcLen = App("str_len", SInt, args[1].T)
	} else {
		srcLen = SLen(args[1].T)
	}
	n := Ite(Lt(SLen(dst), srcLen), SLen(dst), srcLen)
	heap := ex.get(st, c, cs)
	old := Select(heap, SArr(dst))
	fc := ex.ctx.Fresh("copied", ArraySort(SInt, es))
	j := Bound{Name: ex.boundName("j"), Sort: SInt}
	jv := V(j.Name, SInt)
	inWin := And(Le(SOff(dst), jv), Lt(jv, Add(SOff(dst), n)))
	var body *Term
	if srcIsStr {
		body = Implies(Not(inWin), Eq(Select(fc, jv), Select(old, jv)))
	} else {
		src := args[1].T
		sc := Select(heap, SArr(src))
		body = Eq(Select(fc, jv), Ite(inWin, Select(sc, Add(SOff(src), Sub(jv, SOff(dst)))), Select(old, jv)))
	}
	ex.assume(st, Forall([]Bound{j}, body))
	ex.set(st, c, Ite(Eq(SArr(dst), TNull), heap, Store(heap, SArr(dst), fc)))
	return Val{T: n}
}

// ---------------------------------------------------------------- interface method calls

func (fr *Frame) invoke(st *State, cc *ssa.CallCommon, recv Val, args []Val, pos token.Pos, instr ssa.Instruction) Val {
	ex := fr.ex
	iface := cc.Value.Type()
	m := cc.Method
	// dispatch over the implementers present in the packages under verification
	impls := ex.w.implementers(iface, m)
	named, _ := iface.(*types.Named)
	ifaceName := iface.String()
	if named != nil {
		ifaceName = named.Obj().Name()
	}
	// interface-level trusted model
	if v, ok := fr.interceptInvoke(st, ifaceName, iface, m, recv, args, pos); ok {
		return v
	}
	if len(impls) == 0 || len(impls) > 8 {
		ex.note("interface call %s.%s at %s: %d implementers; result havoc, no modelled effect assumed", ifaceName, m.Name(), fr.pos(pos), len(impls))
		res := cc.Signature().Results()
		allTerms := recv.T != nil
		for _, a := range args {
			if a.T == nil {
				allTerms = false
			}
		}
		if allTerms && res.Len() == 1 && ex.w.deterministicIface[ifaceName+"."+m.Name()] {
			// application callbacks declared deterministic in the contracts file: an
			// uninterpreted function of the receiver and the arguments
			ex.trusted[fmt.Sprintf("iface: %s.%s is a deterministic, effect-free function of its receiver and arguments", ifaceName, m.Name())] = true
			ts := []*Term{recv.T}
			for _, a := range args {
				ts = append(ts, a.T)
			}
			rt := res.At(0).Type()
			v := ex.ctx.UF("invoke."+sanitize(ifaceName+"."+m.Name()), ex.ctx.SortOf(rt), ts...)
			if ex.ghost == 0 {
				ex.assume(st, ex.typeFacts(v, rt))
			}
			return Val{T: v}
		}
		ex.trusted[fmt.Sprintf("iface: %s.%s (result arbitrary, no modelled effect)", ifaceName, m.Name())] = true
		fr.havocPointees(st, args)
		return fr.havocResult(st, res, "invoke."+m.Name())
	}
	// closed-world dispatch: ite over dynamic type
	type branch struct {
		cond *Term
		st   *State
		val  Val
	}
	var brs []branch
	covered := TFalse
	for _, im := range impls {
		id := ex.ctx.TypeID(im.typ)
		cond := Eq(App("typeof", SInt, recv.T), IntLit(int64(id)))
		covered = Or(covered, cond)
		sub := st.clone()
		sub.pc = And(st.pc, cond)
		name := "box_" + mangleType(im.typ)
		s := ex.ctx.SortOf(im.typ)
		ex.ctx.Fun(name, []string{s}, SIfc)
		ex.ctx.Fun("un"+name, []string{SIfc}, s)
		rv := Val{T: App("un"+name, s, recv.T)}
		v := fr.callStatic(sub, im.fn, append([]Val{rv}, args...), nil, pos, instr, cc)
		brs = append(brs, branch{cond, sub, v})
	}
	// other dynamic types: havoc
	other := st.clone()
	other.pc = And(st.pc, Not(covered))
	ov := fr.havocResult(other, cc.Signature().Results(), "invoke."+m.Name())
	if ex.ghost == 0 {
		ex.trusted[fmt.Sprintf("iface: %s.%s on types outside the verified packages (result arbitrary, no modelled effect)", ifaceName, m.Name())] = true
	}
	// merge
	res := ov
	comps := map[string]bool{}
	for _, b := range brs {
		for k := range b.st.heap {
			comps[k] = true
		}
	}
	merged := map[string]*Term{}
	for k := range comps {
		acc := ex.get(other, k, ex.compSort[k])
		for i := len(brs) - 1; i >= 0; i-- {
			acc = Ite(brs[i].cond, ex.get(brs[i].st, k, ex.compSort[k]), acc)
		}
		merged[k] = acc
	}
	for k, v := range merged {
		if old, ok := st.heap[k]; !ok || old != v {
			st.heap[k] = ex.ctx.Abbrev("H."+k, v)
		}
	}
	for i := len(brs) - 1; i >= 0; i-- {
		if res.T != nil || res.Tup != nil {
			res = ex.iteVal(brs[i].cond, brs[i].val, res)
		}
	}
	return res
}
