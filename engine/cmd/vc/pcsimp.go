package main

import "fmt"

// Path-condition simplification at joins: Or(X∧c, X∧¬c) = X, and edge
// conditions relative to the merged path condition. Keeps the terms produced
// for short-circuit booleans (lowered to control flow by go/ssa) readable.

func conjuncts(t *Term) []*Term {
	if t.Op == "and" {
		return t.Args
	}
	if t.Op == "true" {
		return nil
	}
	return []*Term{t}
}

func complementary(a, b *Term) bool {
	if a.Op == "not" && (a.Args[0] == b || sameTerm(a.Args[0], b)) {
		return true
	}
	if b.Op == "not" && (b.Args[0] == a || sameTerm(b.Args[0], a)) {
		return true
	}
	return false
}

func sameConj(a, b *Term) bool { return a == b || sameTerm(a, b) }

// tryMerge returns X if p = X∧c and q = X∧¬c.
func tryMerge(p, q []*Term) ([]*Term, bool) {
	if len(p) != len(q) {
		return nil, false
	}
	diff := -1
	used := make([]bool, len(q))
	for i, x := range p {
		found := false
		for j, y := range q {
			if !used[j] && sameConj(x, y) {
				used[j] = true
				found = true
				break
			}
		}
		if !found {
			if diff >= 0 {
				return nil, false
			}
			diff = i
		}
	}
	if diff < 0 {
		return p, true // identical
	}
	for j, y := range q {
		if !used[j] {
			if complementary(p[diff], y) {
				out := append(append([]*Term(nil), p[:diff]...), p[diff+1:]...)
				return out, true
			}
			return nil, false
		}
	}
	return nil, false
}

// mergeConds returns the disjunction of the edge conditions, simplified, and
// the conditions relative to it.
func mergeConds(conds []*Term) (*Term, []*Term) {
	sets := make([][]*Term, len(conds))
	for i, c := range conds {
		sets[i] = conjuncts(c)
	}
	work := append([][]*Term(nil), sets...)
	for changed := true; changed && len(work) > 1; {
		changed = false
	outer:
		for i := 0; i < len(work); i++ {
			for j := i + 1; j < len(work); j++ {
				if m, ok := tryMerge(work[i], work[j]); ok {
					work[i] = m
					work = append(work[:j], work[j+1:]...)
					changed = true
					break outer
				}
			}
		}
	}
	var pc *Term
	if len(work) == 1 {
		pc = And(work[0]...)
	} else {
		var ds []*Term
		for _, w := range work {
			ds = append(ds, And(w...))
		}
		pc = Or(ds...)
	}
	// relative conditions: drop conjuncts implied by the merged pc
	base := conjuncts(pc)
	if pc.Op == "or" {
		base = nil
	}
	rel := make([]*Term, len(conds))
	for i, s := range sets {
		var keep []*Term
		for _, x := range s {
			in := false
			for _, y := range base {
				if sameConj(x, y) {
					in = true
					break
				}
			}
			if !in {
				keep = append(keep, x)
			}
		}
		rel[i] = And(keep...)
	}
	return pc, rel
}

// pcAnd extends a path condition by one branch condition without flattening
// the condition, so that the two sides of a branch stay complementary atoms.
func pcAnd(pc, c *Term) *Term {
	if c.Op == "true" {
		return pc
	}
	if c.Op == "false" || pc.Op == "false" {
		return TFalse
	}
	if pc.Op == "true" {
		if c.Op == "and" {
			return &Term{Op: "and", Sort: SBool, Args: []*Term{c}}
		}
		return c
	}
	var args []*Term
	if pc.Op == "and" {
		args = append(args, pc.Args...)
	} else {
		args = append(args, pc)
	}
	args = append(args, c)
	return &Term{Op: "and", Sort: SBool, Args: args}
}

// slAt reads element idx of a slice whose backing content is `content` and
// whose first element sits at offset off: content[off+idx]. It is printed as
// an application of sl_at_<sort>, defined as a macro in ground queries and
// axiomatised (with a trigger on the application) in quantified ones.
func (ex *Exec) slAt(content, off, idx *Term) *Term {
	_, es := arrayParts(content.Sort)
	name := "sl_at_" + sanitize(es)
	if ex.slAtSorts == nil {
		ex.slAtSorts = map[string]string{}
	}
	ex.slAtSorts[name] = es
	return App(name, es, content, off, idx)
}

// slUpd is the index-relative update: content with element off+idx set to v.
func (ex *Exec) slUpd(content, off, idx, v *Term) *Term {
	_, es := arrayParts(content.Sort)
	if ex.slAtSorts == nil {
		ex.slAtSorts = map[string]string{}
	}
	ex.slAtSorts["sl_at_"+sanitize(es)] = es
	return App("sl_upd_"+sanitize(es), content.Sort, content, off, idx, v)
}

// slAtDecls renders the definitions of the sl_at / sl_upd functions.
func (ex *Exec) slAtDecls(quantified bool) string {
	s := ""
	for _, name := range sortedKeys(ex.slAtSorts) {
		es := ex.slAtSorts[name]
		as := ArraySort(SInt, es)
		upd := "sl_upd_" + sanitize(es)
		if quantified {
			s += "(declare-fun " + name + " (" + as + " Int Int) " + es + ")\n"
			s += "(declare-fun " + upd + " (" + as + " Int Int " + es + ") " + as + ")\n"
			s += "(assert (forall ((a!ax " + as + ") (o!ax Int) (i!ax Int)) (! (= (" + name + " a!ax o!ax i!ax) (select a!ax (+ o!ax i!ax))) :pattern ((" + name + " a!ax o!ax i!ax)))))\n"
			s += "(assert (forall ((a!ax " + as + ") (o!ax Int) (i!ax Int) (v!ax " + es + ")) (! (= (" + upd + " a!ax o!ax i!ax v!ax) (store a!ax (+ o!ax i!ax) v!ax)) :pattern ((" + upd + " a!ax o!ax i!ax v!ax)))))\n"
			s += "(assert (forall ((a!ax " + as + ") (o!ax Int) (i!ax Int) (v!ax " + es + ") (j!ax Int)) (! (= (" + name + " (" + upd + " a!ax o!ax i!ax v!ax) o!ax j!ax) (ite (= j!ax i!ax) v!ax (" + name + " a!ax o!ax j!ax))) :pattern ((" + name + " (" + upd + " a!ax o!ax i!ax v!ax) o!ax j!ax)))))\n"
		} else {
			s += "(define-fun " + name + " ((a!ax " + as + ") (o!ax Int) (i!ax Int)) " + es + " (select a!ax (+ o!ax i!ax)))\n"
			s += "(define-fun " + upd + " ((a!ax " + as + ") (o!ax Int) (i!ax Int) (v!ax " + es + ")) " + as + " (store a!ax (+ o!ax i!ax) v!ax))\n"
		}
	}
	return s
}

// ConstArray builds the array whose every element is zero. Solvers accept
// (as const ...) only over values; over uninterpreted constants (null, the
// empty string, the nil interface) a named array with an axiom is used.
func (c *Ctx) ConstArray(ks, es string, zero *Term) *Term {
	as := ArraySort(ks, es)
	if isValueTerm(zero) {
		return App("(as const "+as+")", as, zero)
	}
	name := "zeroarr." + sanitize(ks) + "." + sanitize(es) + "." + fmt.Sprintf("%x", hashString(zero.String()))
	if _, ok := c.declared[name]; !ok {
		c.Const(name, as)
		i := V("i!za", ks)
		c.axioms = append(c.axioms, &Term{Op: "forall", Sort: SBool, Bound: []Bound{{"i!za", ks}}, Args: []*Term{Eq(Select(V(name, as), i), zero)}})
	}
	return V(name, as)
}

func isValueTerm(t *Term) bool {
	if len(t.Args) == 0 {
		return t.IsLit() || t.Op == "true" || t.Op == "false" || (t.Sort == SReal && t.Op != "")
	}
	if len(t.Bound) > 0 {
		return false
	}
	if len(t.Op) > 3 && (t.Op[:3] == "mk_" || t.Op[:3] == "(as") {
		for _, a := range t.Args {
			if !isValueTerm(a) {
				return false
			}
		}
		return true
	}
	return false
}
