package main

import (
	"bytes"
	"context"
	"fmt"
	"os"
	"os/exec"
	"path/filepath"
	"strings"
	"sync"
	"time"
)

type SolveResult struct {
	Status  string // unsat sat unknown timeout error toolimit
	Solver  string
	Seconds float64
	Model   string
	Output  string
	File    string
	Bytes   int
	Answers map[string]string
	Retried bool // no solver answered in the first round; decided (or not) in a second round with another seed and twice the budget
}

type SolverCfg struct {
	Name string
	Args func(file string, timeoutS int, seed int) []string
}

var solvers = []SolverCfg{
	{"z3-new", func(f string, t, seed int) []string {
		return []string{"z3-new", "-smt2", fmt.Sprintf("-T:%d", t), fmt.Sprintf("smt.random_seed=%d", seed), f}
	}},
	{"z3", func(f string, t, seed int) []string {
		return []string{"z3", "-smt2", fmt.Sprintf("-T:%d", t), fmt.Sprintf("smt.random_seed=%d", seed), f}
	}},
	{"cvc5", func(f string, t, seed int) []string {
		return []string{"cvc5", fmt.Sprintf("--tlimit=%d", t*1000), fmt.Sprintf("--seed=%d", seed), f}
	}},
	// pure E-matching configuration: quick on quantified goals; an "unknown" from it
	// usually means a fact is missing rather than that the search was too short
	{"z3-new-em", func(f string, t, seed int) []string {
		return []string{"z3-new", "-smt2", fmt.Sprintf("-T:%d", t), "smt.auto_config=false", "smt.mbqi=false", fmt.Sprintf("smt.random_seed=%d", seed), f}
	}},
}

const maxQueryBytes = 4 << 20

// Script renders the SMT-LIB query of an obligation.
func (o *Obligation) Script() string {
	ex := o.ex
	var b strings.Builder
	b.WriteString("(set-option :produce-models true)\n(set-logic ALL)\n")
	for _, l := range ex.ctx.typeLines {
		b.WriteString(l + "\n")
	}
	var defs strings.Builder
	for _, l := range ex.ctx.lines {
		defs.WriteString(l + "\n")
	}
	var body strings.Builder
	for i := 0; i < o.NAssume && i < len(ex.assumes); i++ {
		body.WriteString("(assert " + ex.assumes[i].String() + ")\n")
	}
	body.WriteString("(assert " + o.PC.String() + ")\n")
	if o.Extra != nil {
		body.WriteString("(assert " + o.Extra.String() + ")\n")
	}
	body.WriteString("(assert (not " + o.Goal.String() + "))\n")
	bs := body.String()
	// The quantified memory-model axioms are only needed when the query itself
	// quantifies (ground instances are asserted where the terms are created);
	// leaving them out keeps ground queries decidable, so refutations come back
	// as sat with a model rather than unknown.
	ds := defs.String()
	quantified := strings.Contains(bs, "(forall ") || strings.Contains(bs, "(exists ") || strings.Contains(ds, "(forall ") || strings.Contains(ds, "(exists ") ||
		// functions that exist only through their axioms (counting functions, witness markers)
		strings.Contains(bs, "(cnt_") || strings.Contains(ds, "(cnt_") || strings.Contains(bs, "(fsum ")
	b.WriteString(ex.slAtDecls(quantified))
	b.WriteString(ds)
	if quantified {
		for _, a := range ex.axioms {
			b.WriteString("(assert " + a.String() + ")\n")
		}
		for _, a := range ex.ctx.axioms {
			b.WriteString("(assert " + a.String() + ")\n")
		}
	}
	for _, a := range ex.ctx.StrAxioms() {
		b.WriteString("(assert " + a.String() + ")\n")
	}
	b.WriteString(bs)
	b.WriteString("(check-sat)\n")
	if len(o.Values) > 0 {
		b.WriteString("(get-value (")
		for _, v := range o.Values {
			b.WriteString(v.T.String() + " ")
		}
		b.WriteString("))\n")
	}
	return b.String()
}

type Discharger struct {
	Dir      string
	TimeoutS int
	Seed     int
	All      bool // wait for all solvers and require agreement
	sem      chan struct{}
	n        int
	mu       sync.Mutex
}

func NewDischarger(dir string, timeoutS, seed, procs int, all bool) *Discharger {
	return &Discharger{Dir: dir, TimeoutS: timeoutS, Seed: seed, All: all, sem: make(chan struct{}, procs)}
}

func firstLine(s string) string {
	for _, l := range strings.Split(s, "\n") {
		l = strings.TrimSpace(l)
		if l == "" || strings.HasPrefix(l, "(warning") || strings.HasPrefix(l, "WARNING") {
			continue
		}
		return l
	}
	return ""
}

func (d *Discharger) runSolver(ctx context.Context, s SolverCfg, file string, timeoutS int, seed int) (string, string, float64) {
	d.sem <- struct{}{}
	defer func() { <-d.sem }()
	if ctx.Err() != nil {
		return "cancelled", "", 0
	}
	// The budget is CPU time (ulimit -t), so that a verdict does not depend on how loaded the machine is;
	// the wall-clock limits given to the solver and to the context are only a backstop.
	wall := 4*timeoutS + 5
	args := s.Args(file, wall, seed)
	cctx, cancel := context.WithTimeout(ctx, time.Duration(wall+3)*time.Second)
	defer cancel()
	sh := fmt.Sprintf("ulimit -t %d; exec \"$0\" \"$@\"", timeoutS)
	cmd := exec.CommandContext(cctx, "sh", append([]string{"-c", sh}, args...)...)
	var out bytes.Buffer
	cmd.Stdout = &out
	cmd.Stderr = &out
	t0 := time.Now()
	cmd.Run()
	el := time.Since(t0).Seconds()
	txt := out.String()
	fl := firstLine(txt)
	switch fl {
	case "sat", "unsat", "unknown":
		return fl, txt, el
	case "timeout":
		return "timeout", txt, el
	}
	if ctx.Err() != nil {
		return "cancelled", txt, el
	}
	if cctx.Err() != nil {
		return "timeout", txt, el
	}
	if ps := cmd.ProcessState; ps != nil && !ps.Success() && fl == "" {
		// killed by the CPU limit (SIGXCPU/SIGKILL) before printing anything
		return "timeout", txt, el
	}
	return "error", txt, el
}

// Discharge decides one obligation by racing the solvers.
func (d *Discharger) Discharge(o *Obligation) *SolveResult {
	if o.Goal.Op == "true" && o.Expect == "unsat" {
		return &SolveResult{Status: "unsat", Solver: "syntactic"}
	}
	script := o.Script()
	d.mu.Lock()
	d.n++
	id := d.n
	d.mu.Unlock()
	file := filepath.Join(d.Dir, fmt.Sprintf("q%05d_%s.smt2", id, sanitize(truncate(o.Name, 100))))
	res := &SolveResult{File: file, Bytes: len(script), Answers: map[string]string{}}
	if len(script) > maxQueryBytes {
		res.Status = "toolimit"
		res.Output = fmt.Sprintf("query of %d bytes exceeds cap of %d", len(script), maxQueryBytes)
		return res
	}
	if err := os.WriteFile(file, []byte(script), 0o644); err != nil {
		res.Status = "error"
		res.Output = err.Error()
		return res
	}
	ctx, cancel := context.WithCancel(context.Background())
	defer cancel()
	type ans struct {
		solver, status, out string
		secs                float64
	}
	attempt := 0
RETRY:
	seed := d.Seed + 17*attempt
	ch := make(chan ans, len(solvers))
	order := make([]SolverCfg, len(solvers))
	for i := range solvers {
		order[i] = solvers[(i+d.Seed)%len(solvers)]
	}
	timeout := d.TimeoutS << attempt
	quickOnly := o.Kind == "cover" || o.Canary || o.Case != ""
	if quickOnly {
		// satisfiability checks and canaries: a quick answer or none
		timeout = 3
	}
	for _, s := range order {
		s := s
		go func() {
			st, out, secs := d.runSolver(ctx, s, file, timeout, seed)
			ch <- ans{s.Name, st, out, secs}
		}()
	}
	var definite *ans
	for i := 0; i < len(solvers); i++ {
		a := <-ch
		res.Answers[a.solver] = a.status
		if a.status == "sat" || a.status == "unsat" {
			if definite == nil {
				aa := a
				definite = &aa
				if !d.All {
					cancel()
				}
			} else if definite.status != a.status {
				res.Status = "error"
				res.Output = fmt.Sprintf("SOLVER DISAGREEMENT: %s says %s, %s says %s", definite.solver, definite.status, a.solver, a.status)
				return res
			}
		} else if a.status == "error" && res.Output == "" {
			res.Output = a.solver + ": " + truncate(a.out, 600)
		}
	}
	if definite != nil {
		res.Status = definite.status
		res.Solver = definite.solver
		res.Seconds = definite.secs
		if definite.status == "sat" {
			res.Model = modelText(definite.out)
		}
		res.Output = truncate(definite.out, 4000)
		return res
	}
	if !quickOnly && attempt == 0 && os.Getenv("VC_NORETRY") == "" {
		// no solver decided it: one more round with another random seed and twice the budget before
		// calling it undecided (solver luck must not turn a proved obligation into an undecided one)
		attempt++
		res.Retried = true
		goto RETRY
	}
	res.Status = "unknown"
	for _, v := range res.Answers {
		if v == "timeout" {
			res.Status = "timeout"
		}
	}
	return res
}

func modelText(out string) string {
	i := strings.Index(out, "\n")
	if i < 0 {
		return ""
	}
	return strings.TrimSpace(out[i+1:])
}

// DischargeAll runs obligations in parallel.
func (d *Discharger) DischargeAll(obls []*Obligation) {
	var wg sync.WaitGroup
	for _, o := range obls {
		o := o
		wg.Add(1)
		go func() {
			defer wg.Done()
			o.Result = d.Discharge(o)
		}()
	}
	wg.Wait()
}
