package main

import "fmt"

// explainGoal decomposes a goal into the sub-formulas whose truth values in a
// counter-model tell which part of a clause failed.
func explainGoal(t *Term, path string, depth int) []NamedTerm {
	if depth > 3 || t.Sort != SBool || len(t.Bound) > 0 {
		return nil
	}
	var out []NamedTerm
	switch t.Op {
	case "and", "or":
		if len(t.Args) > 8 {
			return nil
		}
		for i, a := range t.Args {
			p := fmt.Sprintf("%s.%s%d", path, t.Op, i)
			if len(a.Bound) == 0 {
				out = append(out, NamedTerm{p, a})
			}
			out = append(out, explainGoal(a, p, depth+1)...)
		}
	case "=>":
		out = append(out, NamedTerm{path + ".lhs", t.Args[0]})
		out = append(out, explainGoal(t.Args[0], path+".lhs", depth+1)...)
		if len(t.Args[1].Bound) == 0 {
			out = append(out, NamedTerm{path + ".rhs", t.Args[1]})
		}
		out = append(out, explainGoal(t.Args[1], path+".rhs", depth+1)...)
	case "not":
		out = append(out, explainGoal(t.Args[0], path+".not", depth+1)...)
	case "=", "<=", "<", ">=", ">":
		if depth <= 3 && len(t.Args) == 2 && t.Args[0].Sort != SBool {
			out = append(out, NamedTerm{path + ".L", t.Args[0]}, NamedTerm{path + ".R", t.Args[1]})
		}
	}
	if len(out) > 40 {
		out = out[:40]
	}
	return out
}

// continuesExpr reports whether the text ends in a token after which a Go
// expression continues on the next line (binary operator, open bracket, comma).
func continuesExpr(s string) bool {
	i := len(s) - 1
	for i >= 0 && (s[i] == ' ' || s[i] == '\t') {
		i--
	}
	if i < 0 {
		return false
	}
	switch s[i] {
	case '&', '|', '>', '<', '=', '(', ',', '+', '-', '*', '/', '!', ':', '{', '[':
		return true
	}
	return false
}
