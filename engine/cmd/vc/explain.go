package main

import (
	"fmt"
	"go/types"
	"strings"
)

// explainGoal decomposes a goal into the sub-formulas whose truth values in a
// counter-model tell which part of a clause failed.
func explainGoal(t *Term, path string, depth int) []NamedTerm {
	if depth > 3 || t.Sort != SBool || len(t.Bound) > 0 {
		return nil
	}
	var out []NamedTerm
	switch t.Op {
	case "and", "or":
		if len(t.Args) > 8 {
			return nil
		}
		for i, a := range t.Args {
			p := fmt.Sprintf("%s.%s%d", path, t.Op, i)
			if len(a.Bound) == 0 {
				out = append(out, NamedTerm{p, a})
			}
			out = append(out, explainGoal(a, p, depth+1)...)
		}
	case "=>":
		out = append(out, NamedTerm{path + ".lhs", t.Args[0]})
		out = append(out, explainGoal(t.Args[0], path+".lhs", depth+1)...)
		if len(t.Args[1].Bound) == 0 {
			out = append(out, NamedTerm{path + ".rhs", t.Args[1]})
		}
		out = append(out, explainGoal(t.Args[1], path+".rhs", depth+1)...)
	case "not":
		out = append(out, explainGoal(t.Args[0], path+".not", depth+1)...)
	case "=", "<=", "<", ">=", ">":
		if depth <= 3 && len(t.Args) == 2 && t.Args[0].Sort != SBool {
			out = append(out, NamedTerm{path + ".L", t.Args[0]}, NamedTerm{path + ".R", t.Args[1]})
		}
	}
	if len(out) > 40 {
		out = out[:40]
	}
	return out
}

// continuesExpr reports whether the text ends in a token after which a Go
// expression continues on the next line (binary operator, open bracket, comma).
func continuesExpr(s string) bool {
	i := len(s) - 1
	for i >= 0 && (s[i] == ' ' || s[i] == '\t') {
		i--
	}
	if i < 0 {
		return false
	}
	switch s[i] {
	case '&', '|', '>', '<', '=', '(', ',', '+', '-', '*', '/', '!', ':', '{', '[':
		return true
	}
	return false
}

// importTypeLines adds datatype declarations made in another context (the one
// in which a callee's frame was computed) that this context lacks.
func (c *Ctx) importTypeLines(lines []string) {
	for _, l := range lines {
		const p = "(declare-datatypes (("
		if len(l) < len(p) || l[:len(p)] != p {
			continue
		}
		rest := l[len(p):]
		end := 0
		for end < len(rest) && rest[end] != ' ' {
			end++
		}
		name := rest[:end]
		if name == "Slice" || c.dtDone[name] {
			continue
		}
		c.dtDone[name] = true
		c.typeLines = append(c.typeLines, l)
	}
}

// ghostRange: values read by specification code get no assumptions; instead a
// value of an unsigned type (or a length) is clamped into its type's range. The
// clamp is the identity on every value the program can hold, so the meaning of
// the specification is unchanged while the solver learns the bounds.
func (ex *Exec) ghostRange(v *Term, lo, hi *Term) *Term {
	if ex.ghost == 0 || v.Sort != SInt || v.IsLit() {
		return v
	}
	if ex.collectFacts != nil && !mentionsBound(v) {
		// closed term: record the range as a fact that holds of every Go heap; it is
		// assumed where the clause is used (no clamp needed)
		var fs []*Term
		if lo != nil {
			fs = append(fs, Le(lo, v))
		}
		if hi != nil {
			fs = append(fs, Le(v, hi))
		}
		*ex.collectFacts = append(*ex.collectFacts, And(fs...))
		return v
	}
	r := v
	if hi != nil {
		r = Ite(Gt(r, hi), hi, r)
	}
	if lo != nil {
		r = Ite(Lt(v, lo), lo, r)
	}
	return r
}

func (ex *Exec) ghostTyped(v *Term, t types.Type) *Term {
	if ex.ghost == 0 || v == nil || v.Sort != SInt || !isUnsigned(t) {
		return v
	}
	_, hi, ok := intRange(t)
	if !ok {
		return v
	}
	h, _ := newBig(hi)
	return ex.ghostRange(v, IntLit(0), BigLit(h))
}

// mentionsBound reports whether a term refers to a quantifier-bound variable
// (their names carry the "!b<n>" suffix given by boundName).
func mentionsBound(t *Term) bool {
	leaves := map[string]string{}
	FreeLeaves(t, leaves)
	for name := range leaves {
		if i := strings.LastIndex(name, "!b"); i > 0 {
			rest := name[i+2:]
			digits := rest != ""
			for _, c := range rest {
				if c < '0' || c > '9' {
					digits = false
				}
			}
			if digits {
				return true
			}
		}
	}
	return false
}

// decodeTerms: the success flag and the value obtained by decoding buf as type t.
func (ex *Exec) decodeTerms(st *State, buf *Term, t types.Type) (*Term, *Term) {
	c, cs := ex.elemsComp(types.Typ[types.Uint8])
	content := Select(ex.get(st, c, cs), SArr(buf))
	tn := mangleType(t)
	ok := ex.ctx.UF("dec_ok_"+tn, SBool, content, SOff(buf), SLen(buf))
	_, seen := ex.ctx.declared["dec_"+tn]
	val := ex.ctx.UF("dec_"+tn, ex.ctx.SortOf(t), content, SOff(buf), SLen(buf))
	if !seen && val.Sort == SSlc {
		// a decoded slice is a well-formed slice whose backing array is not one of the
		// arrays the verified code allocates later (it is modelled as existing from the start)
		cv, ov, lv := V("c!dx", content.Sort), V("o!dx", SInt), V("l!dx", SInt)
		d := App("dec_"+tn, SSlc, cv, ov, lv)
		al := ex.ctx.Const("Alloc!pre", ArraySort(SRef, SBool))
		body := And(Le(IntLit(0), SOff(d)), Le(IntLit(0), SLen(d)), Le(SLen(d), SCap(d)),
			Or(Eq(SArr(d), TNull), Select(al, SArr(d))), Implies(Eq(SArr(d), TNull), Eq(SCap(d), IntLit(0))))
		ex.axioms = append(ex.axioms, &Term{Op: "forall", Sort: SBool, Pat: []*Term{d},
			Bound: []Bound{{"c!dx", content.Sort}, {"o!dx", SInt}, {"l!dx", SInt}}, Args: []*Term{body}})
	}
	return ok, val
}
