package main

import (
	"fmt"
	"go/constant"
	"go/token"
	"go/types"
	"os"
	"sort"
	"strings"

	"golang.org/x/tools/go/ssa"
)

type clauseInst struct {
	Kind string
	Name string
	Tags []string
	Cond *Term
	PC   *Term
}

func placeholderBase(prefix string) func(comp, sort string) *Term {
	return func(comp, sort string) *Term { return V(prefix+comp, sort) }
}

// evalSpec runs a ghost spec function and returns its clauses as terms over
// CUR./OLD. heap placeholders.
func (ex *Exec) evalSpec(fn *ssa.Function, args []Val) []clauseInst {
	ex.ghost++
	ex.ctx.noAbbrev++
	savedCollect := ex.collect
	savedFacts := ex.collectFacts
	var out []clauseInst
	var facts []*Term
	ex.collect = &out
	ex.collectFacts = &facts
	defer func() {
		ex.ghost--
		ex.ctx.noAbbrev--
		ex.collect = savedCollect
		ex.collectFacts = savedFacts
	}()
	st := &State{pc: TTrue, heap: map[string]*Term{}, base: placeholderBase("CUR.")}
	fr := ex.newFrame(fn, args, nil, nil)
	fr.run(st)
	// facts first: they are assumed before the clauses are used
	seen := map[string]bool{}
	var res []clauseInst
	for _, f := range facts {
		k := f.String()
		if f.Op == "true" || seen[k] {
			continue
		}
		seen[k] = true
		res = append(res, clauseInst{Kind: "fact", Cond: f, PC: TTrue})
	}
	return append(res, out...)
}

// substPrefix renames heap placeholders.
func substPrefix(t *Term, from, to string) *Term {
	leaves := map[string]string{}
	FreeLeaves(t, leaves)
	m := map[string]*Term{}
	for name, sort := range leaves {
		if strings.HasPrefix(name, from) {
			m[name] = V(to+strings.TrimPrefix(name, from), sort)
		}
	}
	return Subst(t, m)
}

// inst replaces placeholders by the heaps of the given states.
func (ex *Exec) inst(t *Term, old, cur *State) *Term {
	leaves := map[string]string{}
	FreeLeaves(t, leaves)
	m := map[string]*Term{}
	for name, sort := range leaves {
		switch {
		case strings.HasPrefix(name, "CUR."):
			m[name] = ex.get(cur, strings.TrimPrefix(name, "CUR."), sort)
		case strings.HasPrefix(name, "OLD."):
			m[name] = ex.get(old, strings.TrimPrefix(name, "OLD."), sort)
		}
	}
	return Subst(t, m)
}

func constString(v ssa.Value) string {
	if c, ok := v.(*ssa.Const); ok && c.Value != nil && c.Value.Kind() == constant.String {
		return constant.StringVal(c.Value)
	}
	return "?"
}

func splitTags(s string) []string {
	var out []string
	for _, t := range strings.Split(s, ",") {
		t = strings.TrimSpace(t)
		if t != "" {
			out = append(out, t)
		}
	}
	return out
}

// unboxArg recovers the pointer passed through an `any` parameter.
// unboxAs recovers the reference inside an interface-typed argument whose static type before boxing is known from
// the call site (a MakeInterface of a channel, map or pointer).
func (ex *Exec) unboxAs(t *Term, arg ssa.Value) *Term {
	u := unboxArg(t)
	if u.Sort == SRef {
		return u
	}
	if mi, ok := arg.(*ssa.MakeInterface); ok {
		name := "box_" + mangleType(mi.X.Type())
		s := ex.ctx.SortOf(mi.X.Type())
		ex.ctx.Fun(name, []string{s}, SIfc)
		ex.ctx.Fun("un"+name, []string{SIfc}, s)
		return App("un"+name, s, t)
	}
	return u
}

func unboxArg(t *Term) *Term {
	if strings.HasPrefix(t.Op, "box_") && len(t.Args) == 1 {
		return t.Args[0]
	}
	return t
}

// preludeCall interprets the ghost prelude.
func (fr *Frame) preludeCall(st *State, name string, fn *ssa.Function, args []Val, pos token.Pos, cc *ssa.CallCommon) (Val, bool) {
	ex := fr.ex
	switch name {
	case "__requires", "__ensures", "__invariant", "__canary":
		if st.oldDepth != 0 {
			ex.unsupported("internal: unbalanced old() nesting (%d) at clause %s", st.oldDepth, constString(cc.Args[0]))
		}
		if ex.collect != nil {
			*ex.collect = append(*ex.collect, clauseInst{Kind: strings.TrimPrefix(name, "__"), Name: constString(cc.Args[0]),
				// clause calls are top-level statements of the generated spec function: every
				// path reaches them, so their path condition is logically true
				Tags: splitTags(constString(cc.Args[1])), Cond: args[2].T, PC: TTrue})
		}
		return Val{}, true
	case "__case":
		if ex.collect != nil {
			*ex.collect = append(*ex.collect, clauseInst{Kind: "case", Name: constString(cc.Args[0]), Cond: args[1].T, PC: TTrue})
		}
		return Val{}, true
	case "__assert":
		if ex.ghost == 0 {
			ex.assert(st, "lemma", constString(cc.Args[0]), splitTags(constString(cc.Args[1])), args[2].T, fr.pos(pos))
		}
		return Val{}, true
	case "__assume":
		if ex.ghost == 0 {
			ex.assume(st, args[0].T)
			ex.trusted["assume in lemma/spec at "+fr.pos(pos).String()] = true
		}
		return Val{}, true
	case "__oldMark":
		// old(e) is compiled to __old(__oldMark(), e): from the mark to the call, heap
		// reads go to the pre-state (values of variables bound outside keep their value)
		if ex.ghost == 0 {
			ex.unsupported("old() outside of a contract")
		}
		st.oldDepth++
		return Val{T: TTrue}, true
	case "__oldEnd":
		st.oldDepth--
		return Val{}, true
	case "__old":
		st.oldDepth--
		return args[1], true
	case "__ite":
		return Val{T: Ite(args[0].T, args[1].T, args[2].T)}, true
	case "__forall", "__forall2", "__forall3", "__exists", "__exists2":
		clo := args[0].Clo
		if clo == nil {
			ex.unsupported("quantifier over a non-literal closure")
		}
		var bs []Bound
		var ps []Val
		for _, p := range clo.Fn.Params {
			b := Bound{Name: ex.boundName(sanitize(p.Name())), Sort: ex.ctx.SortOf(p.Type())}
			bs = append(bs, b)
			ps = append(ps, Val{T: V(b.Name, b.Sort)})
		}
		body := fr.ghostApply(st, clo, ps)
		// bound variables range over inhabitants of their Go type
		var facts []*Term
		for i, p := range clo.Fn.Params {
			if b, ok := p.Type().Underlying().(*types.Basic); ok && (b.Kind() == types.Int || b.Kind() == types.Int64) {
				continue // spec-level index variables are mathematical integers
			}
			facts = append(facts, ex.typeFacts(ps[i].T, p.Type()))
		}
		if strings.HasPrefix(name, "__forall") {
			return Val{T: Forall(bs, Implies(And(facts...), body))}, true
		}
		return Val{T: Exists(bs, And(append(facts, body)...))}, true
	case "__allocatedRef":
		// allocated() for references Go's type system does not let the generic take (channels, maps)
		x := ex.unboxAs(args[0].T, cc.Args[0])
		if x.Sort != SRef {
			ex.unsupported("allocatedRef on a non-reference value")
		}
		return Val{T: Select(ex.get(st, "Alloc", ArraySort(SRef, SBool)), x)}, true
	case "__distinctRefs":
		// two references of different Go types (which Go cannot compare) denote different objects
		x, y := ex.unboxAs(args[0].T, cc.Args[0]), ex.unboxAs(args[1].T, cc.Args[1])
		if x.Sort != SRef || y.Sort != SRef {
			ex.unsupported("distinctRefs on non-reference values")
		}
		return Val{T: Or(Eq(x, TNull), Eq(y, TNull), Neq(x, y))}, true
	case "__countRecv", "__countIn":
		// countRecv(ch, lo, hi, pred): how many of the values received from ch with index in [lo, hi) satisfy pred.
		// An uninterpreted function of (receive log, lo, hi, whatever state pred reads), axiomatised by: empty range;
		// one-step unfolding at the upper end (only for the upper bounds that occur in the specification, marked by
		// cnt_mark, so that the axiom cannot unfold for ever); a later receive does not change the count of an earlier
		// range; 0 <= count <= length.
		clo := args[3].Clo
		if clo == nil || len(clo.Fn.Params) != 1 {
			ex.unsupported("countRecv needs a literal one-argument predicate")
		}
		var elem types.Type
		var es, logSort string
		var logArr *Term
		loArg, hiArg := args[1].T, args[2].T
		if name == "__countIn" {
			// countIn(s, lo, hi, pred): the same counting function over the elements s[lo..hi) of a slice (the "log" is
			// the slice's backing array, the bounds are shifted by the slice's offset)
			elem = cc.Args[0].Type().Underlying().(*types.Slice).Elem()
			es = ex.ctx.SortOf(elem)
			logSort = ArraySort(SInt, es)
			c, cs := ex.elemsComp(elem)
			logArr = Select(ex.get(st, c, cs), SArr(args[0].T))
			loArg, hiArg = Add(SOff(args[0].T), loArg), Add(SOff(args[0].T), hiArg)
		} else {
			elem = chanElem(cc.Args[0].Type())
			es = ex.ctx.SortOf(elem)
			logSort = ArraySort(SInt, es)
			logArr = Select(ex.get(st, "ChanRecv_"+typeKey(elem), ArraySort(SRef, logSort)), args[0].T)
		}
		xb := Bound{Name: ex.boundName("x"), Sort: es}
		xv := V(xb.Name, es)
		// captured values become arguments of the counting function (so that the same predicate over provably equal
		// captured values is the same function): evaluate the body over placeholders for them
		capReal := map[string]*Term{}
		clo2 := &Closure{Fn: clo.Fn, Bind: append([]Val(nil), clo.Bind...)}
		for i, bv := range clo2.Bind {
			if bv.T != nil && bv.L == nil && bv.Clo == nil && len(bv.Tup) == 0 {
				ph := fmt.Sprintf("cap%d!b%d", i, 0)
				capReal[ph] = bv.T
				clo2.Bind[i] = Val{T: V(ph, bv.T.Sort)}
			}
		}
		body := fr.ghostApply(st, clo2, []Val{{T: xv}})
		var extra []*Term
		var bs []Bound
		k := 0
		// maximal subterms that do not mention x but depend on the state (heap placeholders, captured values, outer
		// bound variables) are abstracted into arguments, so that the function's identity is the shape of the
		// predicate in x and not the particular terms the state is read through
		holes := map[string]*Term{}
		var mentions func(t *Term, pred func(string) bool) bool
		mentions = func(t *Term, pred func(string) bool) bool {
			lv := map[string]string{}
			FreeLeaves(t, lv)
			for n := range lv {
				if pred(n) {
					return true
				}
			}
			return false
		}
		isState := func(n string) bool {
			return strings.HasPrefix(n, "CUR.") || strings.HasPrefix(n, "OLD.") || strings.Contains(n, "!b")
		}
		var abstract func(t *Term) *Term
		abstract = func(t *Term) *Term {
			if !mentions(t, func(n string) bool { return n == xb.Name }) {
				if t.Sort != SBool && mentions(t, isState) && len(t.Bound) == 0 {
					key := t.String()
					if h, ok := holes[key]; ok {
						return h
					}
					bn := fmt.Sprintf("a%d!cnt", k)
					k++
					bs = append(bs, Bound{Name: bn, Sort: t.Sort})
					h := V(bn, t.Sort)
					holes[key] = h
					real := t
					if len(capReal) > 0 {
						real = Subst(t, capReal)
					}
					extra = append(extra, real)
					return h
				}
				return t
			}
			if len(t.Args) == 0 || len(t.Bound) > 0 {
				return t
			}
			na := make([]*Term, len(t.Args))
			changed := false
			for i, a := range t.Args {
				na[i] = abstract(a)
				if na[i] != a {
					changed = true
				}
			}
			if !changed {
				return t
			}
			return &Term{Op: t.Op, Sort: t.Sort, Args: na}
		}
		body = abstract(body)
		leaves := map[string]string{}
		FreeLeaves(body, leaves)
		sub := map[string]*Term{}
		for _, name := range sortedKeys(leaves) {
			if name == xb.Name || strings.HasSuffix(name, "!cnt") {
				continue
			}
			if strings.HasPrefix(name, "CUR.") || strings.HasPrefix(name, "OLD.") || strings.Contains(name, "!b") {
				bn := fmt.Sprintf("a%d!cnt", k)
				k++
				bs = append(bs, Bound{Name: bn, Sort: leaves[name]})
				sub[name] = V(bn, leaves[name])
				if real, isCap := capReal[name]; isCap {
					extra = append(extra, real)
				} else {
					extra = append(extra, V(name, leaves[name]))
				}
			}
		}
		lg, lo, hi := V("log!cnt", logSort), V("lo!cnt", SInt), V("hi!cnt", SInt)
		canon := Subst(body, sub)
		uf := fmt.Sprintf("cnt_%s_%x", sanitize(clo.Fn.Name()), hashString(canon.String()+"|"+xb.Name))
		// the canonical body mentions the bound variable x by this call's name: normalise it
		canonX := Subst(canon, map[string]*Term{xb.Name: Select(lg, Sub(hi, IntLit(1)))})
		// named by the predicate's meaning (its term over x and the abstracted state), not by the closure that wrote it:
		// the same predicate in an invariant and in a postcondition is the same counting function
		uf = fmt.Sprintf("cnt_%s_%x", sanitize(typeKey(elem)), hashString(alphaKey(Subst(canon, map[string]*Term{xb.Name: V("x!cnt", es)}))))
		mkApp := func(l, a, b *Term, ex2 []*Term) *Term {
			return ex.ctx.UF(uf, SInt, append([]*Term{l, a, b}, ex2...)...)
		}
		_, seen := ex.ctx.declared[uf]
		var boundExtra []*Term
		for _, b := range bs {
			boundExtra = append(boundExtra, V(b.Name, b.Sort))
		}
		app := mkApp(logArr, loArg, hiArg, extra)
		ex.ctx.Fun("cnt_mark", []string{SInt}, SInt)
		if !seen {
			all := append([]Bound{{"log!cnt", logSort}, {"lo!cnt", SInt}, {"hi!cnt", SInt}}, bs...)
			c := mkApp(lg, lo, hi, boundExtra)
			// empty range, bounds
			ex.axioms = append(ex.axioms, &Term{Op: "forall", Sort: SBool, Bound: all, Pat: []*Term{c},
				Args: []*Term{And(Implies(Le(hi, lo), Eq(c, IntLit(0))), Le(IntLit(0), c), Implies(Le(lo, hi), Le(c, Sub(hi, lo))))}})
			// one step at the upper end, for marked upper ends only
			step := Eq(c, Add(mkApp(lg, lo, Sub(hi, IntLit(1)), boundExtra), Ite(canonX, IntLit(1), IntLit(0))))
			ex.axioms = append(ex.axioms, &Term{Op: "forall", Sort: SBool, Bound: all, Pat: []*Term{c, App("cnt_mark", SInt, hi)},
				Args: []*Term{Implies(Lt(lo, hi), step)}})
			// monotone in the upper bound (a consequence of the definition by induction, given to the solver as a fact)
			h2 := V("hi2!cnt", SInt)
			cB := mkApp(lg, lo, h2, boundExtra)
			ex.axioms = append(ex.axioms, &Term{Op: "forall", Sort: SBool, Bound: append(append([]Bound{}, all...), Bound{"hi2!cnt", SInt}), Pat: []*Term{c, cB},
				Args: []*Term{Implies(Le(hi, h2), Le(c, cB))}})
			// a receive at or beyond the upper end does not matter
			nb, vb := Bound{"n!cnt", SInt}, Bound{"v!cnt", es}
			st2 := Store(lg, V("n!cnt", SInt), V("v!cnt", es))
			c2 := mkApp(st2, lo, hi, boundExtra)
			ex.axioms = append(ex.axioms, &Term{Op: "forall", Sort: SBool, Bound: append(append([]Bound{}, all...), nb, vb), Pat: []*Term{c2},
				Args: []*Term{Implies(Ge(V("n!cnt", SInt), hi), Eq(c2, c))}})
			if !ex.cntMarkAx {
				ex.cntMarkAx = true
				n := V("n!cm", SInt)
				m := App("cnt_mark", SInt, n)
				ex.axioms = append(ex.axioms, &Term{Op: "forall", Sort: SBool, Bound: []Bound{{"n!cm", SInt}}, Pat: []*Term{m}, Args: []*Term{Eq(m, IntLit(0))}})
			}
			ex.trusted["countRecv: counting function axiomatised by empty range, one-step unfolding, frame over later receives (standard recursive definition)"] = true
		}
		return Val{T: Add(app, App("cnt_mark", SInt, hiArg))}, true
	case "__sumSq", "__sumSqDiff":
		// sumSq(v, n) = sum of v[i]^2 for 0 <= i < n; sumSqDiff(a, b, n) = sum of (a[i]-b[i])^2 for 0 <= i < n (indices
		// beyond either slice contribute 0). Finite sum fsum(D, n) of an array of terms D, axiomatised by its recursive
		// definition (empty sum; one-step unfolding at the upper end, for marked upper ends only so that the axiom
		// cannot unfold for ever); D is itself a function of the slices, defined pointwise, so that two sums whose
		// terms agree pointwise are equal by array extensionality and congruence -- no induction is assumed.
		rs := ArraySort(SInt, SReal)
		c, cs := ex.elemsComp(cc.Args[0].Type().Underlying().(*types.Slice).Elem())
		if ex.ctx.SortOf(cc.Args[0].Type().Underlying().(*types.Slice).Elem()) != SReal {
			ex.unsupported("sumSq on a non-float slice")
		}
		el := func(s *Term) *Term { return Select(ex.get(st, c, cs), SArr(s)) }
		var d, n *Term
		if !ex.fsumAx {
			ex.fsumAx = true
			ex.ctx.Fun("fsum", []string{rs, SInt}, SReal)
			ex.ctx.Fun("fsum_mark", []string{SInt}, SReal)
			ex.ctx.Fun("sqarr", []string{rs, SInt, SInt}, rs)
			ex.ctx.Fun("sqdiffarr", []string{rs, SInt, SInt, rs, SInt, SInt}, rs)
			D, N, I := V("D!fs", rs), V("n!fs", SInt), V("i!fs", SInt)
			fs := App("fsum", SReal, D, N)
			ex.axioms = append(ex.axioms, &Term{Op: "forall", Sort: SBool, Bound: []Bound{{"D!fs", rs}, {"n!fs", SInt}}, Pat: []*Term{fs},
				Args: []*Term{Implies(Le(N, IntLit(0)), Eq(fs, RealLit("0.0")))}})
			ex.axioms = append(ex.axioms, &Term{Op: "forall", Sort: SBool, Bound: []Bound{{"D!fs", rs}, {"n!fs", SInt}}, Pat: []*Term{fs, App("fsum_mark", SReal, N)},
				Args: []*Term{Implies(Lt(IntLit(0), N), Eq(fs, App("+", SReal, App("fsum", SReal, D, Sub(N, IntLit(1))), Select(D, Sub(N, IntLit(1))))))}})
			mk := App("fsum_mark", SReal, N)
			ex.axioms = append(ex.axioms, &Term{Op: "forall", Sort: SBool, Bound: []Bound{{"n!fs", SInt}}, Pat: []*Term{mk}, Args: []*Term{Eq(mk, RealLit("0.0"))}})
			E, O, L := V("E!fs", rs), V("o!fs", SInt), V("l!fs", SInt)
			E2, O2, L2 := V("E2!fs", rs), V("o2!fs", SInt), V("l2!fs", SInt)
			sa := App("sqarr", rs, E, O, L)
			x := ex.slAt(E, O, I)
			ex.axioms = append(ex.axioms, &Term{Op: "forall", Sort: SBool, Bound: []Bound{{"E!fs", rs}, {"o!fs", SInt}, {"l!fs", SInt}, {"i!fs", SInt}}, Pat: []*Term{Select(sa, I)},
				Args: []*Term{Eq(Select(sa, I), Ite(And(Le(IntLit(0), I), Lt(I, L)), App("*", SReal, x, x), RealLit("0.0")))}})
			sd := App("sqdiffarr", rs, E, O, L, E2, O2, L2)
			y := App("-", SReal, ex.slAt(E, O, I), ex.slAt(E2, O2, I))
			ex.axioms = append(ex.axioms, &Term{Op: "forall", Sort: SBool, Bound: []Bound{{"E!fs", rs}, {"o!fs", SInt}, {"l!fs", SInt}, {"E2!fs", rs}, {"o2!fs", SInt}, {"l2!fs", SInt}, {"i!fs", SInt}}, Pat: []*Term{Select(sd, I)},
				Args: []*Term{Eq(Select(sd, I), Ite(And(Le(IntLit(0), I), Lt(I, L), Lt(I, L2)), App("*", SReal, y, y), RealLit("0.0")))}})
			ex.trusted["sumSq/sumSqDiff: finite sum axiomatised by its recursive definition (empty sum, one-step unfolding); the summands are defined pointwise"] = true
		}
		if name == "__sumSq" {
			d = App("sqarr", rs, el(args[0].T), SOff(args[0].T), SLen(args[0].T))
			n = args[1].T
		} else {
			d = App("sqdiffarr", rs, el(args[0].T), SOff(args[0].T), SLen(args[0].T), el(args[1].T), SOff(args[1].T), SLen(args[1].T))
			n = args[2].T
		}
		return Val{T: App("+", SReal, App("fsum", SReal, d, n), App("fsum_mark", SReal, n))}, true
	case "__witness":
		// always true; its only purpose is to put the term x into the formula so that the solver's
		// E-matching has something to instantiate an existential's bound variable with
		w := ex.ctx.UF("witness_int", SBool, args[0].T)
		if !ex.witnessAx {
			ex.witnessAx = true
			x := V("x!wit", SInt)
			wa := App("witness_int", SBool, x)
			ex.axioms = append(ex.axioms, &Term{Op: "forall", Sort: SBool, Pat: []*Term{wa}, Bound: []Bound{{"x!wit", SInt}}, Args: []*Term{wa}})
		}
		return Val{T: w}, true
	case "__mapAt":
		// the value stored under a key, without Go's "zero value when absent" (use under a presence hypothesis)
		return Val{T: ex.mapGetRaw(st, cc.Args[0].Type(), args[0].T, args[1].T)}, true
	case "__mapHas":
		return Val{T: ex.mapHas(st, cc.Args[0].Type(), args[0].T, args[1].T)}, true
	case "__visited":
		mt := cc.Args[0].Type()
		comp, cs, _ := ex.visitedComp(mt)
		return Val{T: Select(Select(ex.get(st, comp, cs), args[0].T), args[1].T)}, true
	case "__sentN":
		return Val{T: Select(ex.get(st, "ChanSentN_"+typeKey(chanElem(cc.Args[0].Type())), ArraySort(SRef, SInt)), args[0].T)}, true
	case "__sentAt":
		seq, ss, _ := ex.chanComps(chanElem(cc.Args[0].Type()))
		return Val{T: Select(Select(ex.get(st, seq, ss), args[0].T), args[1].T)}, true
	case "__recvN":
		return Val{T: Select(ex.get(st, "ChanRecvN_"+typeKey(chanElem(cc.Args[0].Type())), ArraySort(SRef, SInt)), args[0].T)}, true
	case "__recvAt":
		elem := chanElem(cc.Args[0].Type())
		es := ex.ctx.SortOf(elem)
		return Val{T: Select(Select(ex.get(st, "ChanRecv_"+typeKey(elem), ArraySort(SRef, ArraySort(SInt, es))), args[0].T), args[1].T)}, true
	case "__neverClosed":
		ex.trusted["neverClosed(ch): nobody (no goroutine) ever closes this channel -- assumed where a contract requires it"] = true
		return Val{T: Select(ex.get(st, "ChanNeverClosed_"+typeKey(chanElem(cc.Args[0].Type())), ArraySort(SRef, SBool)), args[0].T)}, true
	case "__sentStamp":
		return Val{T: Select(Select(ex.get(st, "ChanSentStamp_"+typeKey(chanElem(cc.Args[0].Type())), ArraySort(SRef, ArraySort(SInt, SInt))), args[0].T), args[1].T)}, true
	case "__recvTotal":
		return Val{T: ex.get(st, "LogN_recv_"+sanitize(typeKey(chanElem(cc.Args[0].Type()))), SInt)}, true
	case "__recvTotalAt":
		elem := chanElem(cc.Args[0].Type())
		return Val{T: Select(ex.get(st, "Log_recv_"+sanitize(typeKey(elem)), ArraySort(SInt, ex.ctx.SortOf(elem))), args[1].T)}, true
	case "__drained":
		return Val{T: Select(ex.get(st, "ChanDrained_"+typeKey(chanElem(cc.Args[0].Type())), ArraySort(SRef, SBool)), args[0].T)}, true
	case "__closed":
		return Val{T: Select(ex.get(st, "ChanClosed_"+typeKey(chanElem(cc.Args[0].Type())), ArraySort(SRef, SBool)), args[0].T)}, true
	case "__held":
		l := unboxArg(args[0].T)
		return Val{T: Eq(Select(ex.get(st, "LockState", ArraySort(SRef, SInt)), l), IntLit(1))}, true
	case "__rheld":
		l := unboxArg(args[0].T)
		return Val{T: Ge(Select(ex.get(st, "LockState", ArraySort(SRef, SInt)), l), IntLit(1))}, true
	case "__havoc":
		rt := fn.Signature.Results().At(0).Type()
		v := ex.ctx.Fresh("havoc", ex.ctx.SortOf(rt))
		if ex.ghost == 0 {
			ex.assume(st, ex.typeFacts(v, rt))
			fr.loadFacts(st, v, rt)
		}
		return Val{T: v}, true
	case "__mapEq":
		mt := cc.Args[0].Type()
		dom, val, _, ks, vs := ex.mapComps(mt)
		d := ex.get(st, dom, ArraySort(SRef, ArraySort(ks, SBool)))
		v := ex.get(st, val, ArraySort(SRef, ArraySort(ks, vs)))
		kb := Bound{Name: ex.boundName("k"), Sort: ks}
		kv := V(kb.Name, ks)
		a, b := args[0].T, args[1].T
		return Val{T: Forall([]Bound{kb}, And(Eq(Select(Select(d, a), kv), Select(Select(d, b), kv)),
			Implies(Select(Select(d, a), kv), Eq(Select(Select(v, a), kv), Select(Select(v, b), kv)))))}, true
	case "__logN":
		return Val{T: ex.get(st, "LogN_"+sanitize(constString(cc.Args[0])), SInt)}, true
	case "__logAt":
		rt := fn.Signature.Results().At(0).Type()
		comp := "Log_" + sanitize(constString(cc.Args[0]))
		return Val{T: Select(ex.get(st, comp, ArraySort(SInt, ex.ctx.SortOf(rt))), args[1].T)}, true
	case "__fresh":
		return Val{T: TTrue}, true
	case "__elemsUnchangedExcept", "__elemsUnchangedExcept2":
		// frame for slice contents: every backing array other than the listed ones is unchanged
		elem := cc.Args[0].Type().Underlying().(*types.Slice).Elem()
		c, cs := ex.elemsComp(elem)
		cur := ex.get(st, c, cs)
		old := substPrefix(cur, "CUR.", "OLD.")
		rb := Bound{Name: ex.boundName("r"), Sort: SRef}
		rv := V(rb.Name, SRef)
		var except []*Term
		for _, a := range args {
			except = append(except, Eq(rv, SArr(a.T)))
		}
		except = append(except, Eq(Select(cur, rv), Select(old, rv)))
		return Val{T: Forall([]Bound{rb}, Or(except...))}, true
	case "__decoded", "__decodeOK":
		ta := fn.TypeArgs()
		if len(ta) != 1 {
			ex.unsupported("decoded[T] needs one type argument")
		}
		ok, val := ex.decodeTerms(st, args[0].T, ta[0])
		if name == "__decodeOK" {
			return Val{T: ok}, true
		}
		return Val{T: val}, true
	case "__nextDecoded", "__nextDecodeOK":
		ta := fn.TypeArgs()
		if len(ta) != 1 {
			ex.unsupported("nextDecoded[T] needs one type argument")
		}
		ok, val := ex.streamDecodeTerms(st, unboxArg(args[0].T), ta[0])
		if name == "__nextDecodeOK" {
			return Val{T: ok}, true
		}
		return Val{T: val}, true
	case "__libFailN":
		return Val{T: ex.get(st, "LibFailN", SInt)}, true
	case "__fileClosed":
		return Val{T: Select(ex.get(st, "FileClosed", ArraySort(SRef, SBool)), args[0].T)}, true
	case "__callRecvOf":
		return Val{T: Select(ex.get(st, "CallRecv_"+sanitize(constString(cc.Args[0])), ArraySort(SInt, SRef)), args[1].T)}, true
	case "__callStrOf":
		return Val{T: Select(ex.get(st, "CallStr_"+sanitize(constString(cc.Args[0])), ArraySort(SInt, SStr)), args[1].T)}, true
	case "__callArg2Of":
		return Val{T: Select(ex.get(st, "CallArgB_"+sanitize(constString(cc.Args[0])), ArraySort(SInt, SRef)), args[1].T)}, true
	case "__callArgOf":
		return Val{T: Select(ex.get(st, "CallArg_"+sanitize(constString(cc.Args[0])), ArraySort(SInt, SRef)), args[1].T)}, true
	case "__callResOf":
		return Val{T: Select(ex.get(st, "CallRes_"+sanitize(constString(cc.Args[0])), ArraySort(SInt, SRef)), args[1].T)}, true
	case "__sprintfArg":
		// the integer a text was formatted from, for a constant format whose only verb is %d (the inverse the
		// injectivity axiom of that format speaks about; meaningless for other texts)
		return Val{T: ex.ctx.UF("uf.sprintf.inv", SInt, ex.ctx.StrLit(constString(cc.Args[0])), args[1].T)}, true
	case "__strFirst":
		ex.ctx.usesStrFirst = true
		return Val{T: ex.ctx.UF("str_first", SInt, args[0].T)}, true
	case "__callResStrOf":
		return Val{T: Select(ex.get(st, "CallResStr_"+sanitize(constString(cc.Args[0])), ArraySort(SInt, SStr)), args[1].T)}, true
	case "__callNOf":
		return Val{T: ex.get(st, "CallN_"+sanitize(constString(cc.Args[0])), SInt)}, true
	case "__callRetOf":
		return Val{T: Select(ex.get(st, "CallRet_"+sanitize(constString(cc.Args[0])), ArraySort(SInt, SBool)), args[1].T)}, true
	case "__callN":
		return Val{T: ex.get(st, "CallN", SInt)}, true
	case "__callIs":
		id := ex.w.spawnID("call:" + constString(cc.Args[1]))
		return Val{T: Eq(Select(ex.get(st, "CallFn", ArraySort(SInt, SInt)), args[0].T), IntLit(int64(id)))}, true
	case "__callRet":
		return Val{T: Select(ex.get(st, "CallRet", ArraySort(SInt, SBool)), args[0].T)}, true
	case "__spawnN":
		return Val{T: ex.get(st, "SpawnN", SInt)}, true
	case "__spawnArg":
		return Val{T: Select(ex.get(st, "SpawnArg", ArraySort(SInt, SInt)), args[0].T)}, true
	case "__spawnIs":
		id := ex.w.spawnID(constString(cc.Args[1]))
		return Val{T: Eq(Select(ex.get(st, "SpawnFn", ArraySort(SInt, SInt)), args[0].T), IntLit(int64(id)))}, true
	case "__sameArray":
		return Val{T: And(Eq(SArr(args[0].T), SArr(args[1].T)), Eq(SOff(args[0].T), SOff(args[1].T)))}, true
	case "__allocatedElemsKept":
		// backing arrays that existed before the call keep their contents (only fresh arrays are written)
		elem := cc.Args[0].Type().Underlying().(*types.Slice).Elem()
		c, cs := ex.elemsComp(elem)
		cur := ex.get(st, c, cs)
		old := substPrefix(cur, "CUR.", "OLD.")
		al := substPrefix(ex.get(st, "Alloc", ArraySort(SRef, SBool)), "CUR.", "OLD.")
		rb := Bound{Name: ex.boundName("r"), Sort: SRef}
		rv := V(rb.Name, SRef)
		return Val{T: Forall([]Bound{rb}, Implies(Select(al, rv), Eq(Select(cur, rv), Select(old, rv))))}, true
	case "__arrayAllocated":
		return Val{T: Select(ex.get(st, "Alloc", ArraySort(SRef, SBool)), SArr(args[0].T))}, true
	case "__allocated":
		if os.Getenv("VC_DEBUG") != "" {
			fmt.Fprintf(os.Stderr, "ALLOCATED in %s oldDepth=%d heapAlloc=%v\n", fr.fn.Name(), st.oldDepth, st.heap["Alloc"])
		}
		return Val{T: Select(ex.get(st, "Alloc", ArraySort(SRef, SBool)), args[0].T)}, true
	case "__same":
		// value identity (also for types Go cannot compare with ==)
		return Val{T: Eq(args[0].T, args[1].T)}, true
	case "__sameSlice":
		return Val{T: Eq(args[0].T, args[1].T)}, true
	case "__nilSlice":
		return Val{T: Eq(SArr(args[0].T), TNull)}, true
	case "__disjoint":
		// the two slices do not share a backing array (or one of them has none)
		return Val{T: Or(Eq(SArr(args[0].T), TNull), Eq(SArr(args[1].T), TNull), Neq(SArr(args[0].T), SArr(args[1].T)))}, true
	}
	return Val{}, false
}

// ghostApply evaluates a closure body as a term.
func (fr *Frame) ghostApply(st *State, clo *Closure, ps []Val) *Term {
	ex := fr.ex
	ex.ghost++
	ex.ctx.noAbbrev++
	defer func() { ex.ghost--; ex.ctx.noAbbrev-- }()
	sub := ex.newFrame(clo.Fn, ps, clo.Bind, fr)
	work := st.clone()
	work.pc = TTrue // the body is a pure function of its bound variables
	exit, vals := sub.run(work)
	if exit == nil || len(vals) != 1 || vals[0].T == nil {
		ex.unsupported("quantifier body does not produce a value")
	}
	return vals[0].T
}

// ---------------------------------------------------------------- contracts at call sites

func (fr *Frame) freshOfType(st *State, t types.Type, prefix string) Val {
	ex := fr.ex
	v := ex.ctx.Fresh(prefix, ex.ctx.SortOf(t))
	ex.assume(st, ex.typeFacts(v, t))
	return Val{T: v}
}

func (fr *Frame) applyContract(st *State, fn *ssa.Function, c *LoadedContract, args []Val, pos token.Pos) Val {
	ex := fr.ex
	if ex.ghost > 0 {
		// specs read through real functions by inlining them
		if len(fn.Blocks) > 0 {
			return fr.inline(st, fn, args, nil, pos)
		}
	}
	key := c.FullName
	ex.usedContracts[key] = true
	if c.C.Trusted {
		ex.trusted["trusted contract: "+key] = true
	}
	for i, a := range args {
		if a.T == nil {
			if a.L != nil {
				ex.unsupported("address of a local passed to contracted function %s (arg %d) at %s", key, i, fr.pos(pos))
			}
			ex.unsupported("non-term argument to contracted function %s", key)
		}
	}
	// fresh results
	var results []Val
	res := fn.Signature.Results()
	for i := 0; i < res.Len(); i++ {
		results = append(results, fr.freshOfType(st, res.At(i).Type(), "r."+fn.Name()))
	}
	clauses := ex.evalSpec(c.Spec, append(append([]Val(nil), args...), results...))
	// cases (carved-out inputs with recorded findings)
	notCase := TTrue
	for _, cl := range clauses {
		if cl.Kind == "case" {
			notCase = And(notCase, Not(ex.inst(cl.Cond, st, st)))
		}
	}
	for _, cl := range clauses {
		if cl.Kind == "fact" {
			ex.assume(st, ex.inst(cl.Cond, st, st))
		}
	}
	for _, cl := range clauses {
		if cl.Kind == "requires" {
			g := ex.inst(Implies(cl.PC, cl.Cond), st, st)
			ex.assert(st, "pre", cl.Name+"@"+key+"<-"+fr.fn.Name()+fr.siteSuffix("pre:"+cl.Name+"@"+key+"<-"+fr.fn.Name()), cl.Tags, g, fr.pos(pos))
		}
	}
	pre := st.clone()
	// havoc the callee's frame
	frame := ex.w.frameOf(fn, c)
	ex.ctx.importTypeLines(frame.typeLines)
	if os.Getenv("VC_DEBUG") != "" && ex.quiet == 0 {
		fmt.Fprintf(os.Stderr, "FRAME %s all=%v %v\n", key, frame.all, sortedKeys(frame.comps))
	}
	if frame.all {
		ex.note("callee %s has an unbounded frame: all modelled heap havoc at %s", key, fr.pos(pos))
		for comp, sort := range ex.compSort {
			if strings.HasPrefix(comp, "loc.") {
				continue
			}
			st.heap[comp] = ex.ctx.Fresh("hv."+comp, sort)
		}
	}
	for _, comp := range sortedKeys(frame.comps) {
		sort := frame.comps[comp]
		if strings.HasPrefix(comp, "loc.") {
			continue
		}
		old := ex.get(st, comp, sort)
		nw := ex.ctx.Fresh("hv."+comp, sort)
		st.heap[comp] = nw
		ex.written[comp] = true
		ex.writeLog = append(ex.writeLog, writeRec{comp: comp, freshOnly: frame.freshOnly[comp]})
		if comp == "Alloc" {
			r := Bound{Name: ex.boundName("r"), Sort: SRef}
			ex.assume(st, Forall([]Bound{r}, Implies(Select(old, V(r.Name, SRef)), Select(nw, V(r.Name, SRef)))))
		}
		if cn := logCounterOf(comp); cn != "" {
			// ghost logs are append-only: whatever the callee recorded, the entries that existed before the call are
			// still there, and a counter never goes down
			if cn == comp {
				ex.assume(st, Ge(nw, old))
			} else if k, _ := arrayParts(sort); k == SInt {
				n0 := ex.get(pre, cn, SInt)
				i := Bound{Name: ex.boundName("i"), Sort: SInt}
				iv := V(i.Name, SInt)
				ex.assume(st, &Term{Op: "forall", Sort: SBool, Bound: []Bound{i}, Pat: []*Term{Select(nw, iv)},
					Args: []*Term{Implies(Lt(iv, n0), Eq(Select(nw, iv), Select(old, iv)))}})
			}
		}
		if lr, ok := ex.lockRelyOfComp(comp); ok && sort == ArraySort(SRef, SInt) {
			// a lock-protected field with a declared rely: whatever the callee and the other threads did to it
			// respected the relation (each critical section is checked against it where it is verified)
			r := Bound{Name: ex.boundName("r"), Sort: SRef}
			rv := V(r.Name, SRef)
			body := Ge(Select(nw, rv), Select(old, rv))
			if lr.Ranged {
				body = And(body, Implies(And(Le(IntLit(lr.Lo), Select(old, rv)), Le(Select(old, rv), IntLit(lr.Hi))),
					And(Le(IntLit(lr.Lo), Select(nw, rv)), Le(Select(nw, rv), IntLit(lr.Hi)))))
			}
			ex.assume(st, Forall([]Bound{r}, body))
		}
		if frame.freshOnly[comp] && strings.HasPrefix(sort, "(Array Ref ") {
			// the callee writes this component only at objects it allocates itself
			ex.preserveAllocated(st, ex.get(pre, "Alloc", ArraySort(SRef, SBool)), old, nw)
		}
	}
	for _, cl := range clauses {
		if cl.Kind == "fact" {
			ex.assume(st, ex.inst(cl.Cond, pre, st))
		}
	}
	for _, cl := range clauses {
		if cl.Kind == "ensures" {
			if hasTag(cl.Tags, "always") {
				ex.assume(st, ex.inst(Implies(cl.PC, cl.Cond), pre, st))
				continue
			}
			ex.assume(st, Implies(notCase, ex.inst(Implies(cl.PC, cl.Cond), pre, st)))
		}
	}
	for i := 0; i < res.Len(); i++ {
		fr.loadFacts(st, results[i].T, res.At(i).Type())
	}
	if c.C.LogCalls && ex.ghost == 0 {
		// ghost call log: which contracted handler ran and what it returned
		sfx := ""
		if c.C.LogName != "" {
			sfx = "_" + sanitize(c.C.LogName)
		}
		n := ex.get(st, "CallN"+sfx, SInt)
		id := ex.w.spawnID("call:" + ex.w.funcKey(fn))
		ex.set(st, "CallFn"+sfx, Store(ex.get(st, "CallFn"+sfx, ArraySort(SInt, SInt)), n, IntLit(int64(id))))
		ret := TFalse
		if len(results) > 0 && results[0].T != nil && results[0].T.Sort == SBool {
			ret = results[0].T
		} else if k := len(results) - 1; k >= 0 && results[k].T != nil && results[k].T.Sort == SIfc && types.Identical(res.At(k).Type(), types.Universe.Lookup("error").Type()) {
			// a call whose (last) result is an error is logged as "succeeded"
			ret = Eq(results[k].T, V("iface_nil", SIfc))
		}
		ex.set(st, "CallRet"+sfx, Store(ex.get(st, "CallRet"+sfx, ArraySort(SInt, SBool)), n, ret))
		if len(results) > 0 && results[0].T != nil && results[0].T.Sort == SRef {
			// a reference-typed first result (the object the callee hands back)
			ex.set(st, "CallRes"+sfx, Store(ex.get(st, "CallRes"+sfx, ArraySort(SInt, SRef)), n, results[0].T))
		}
		if len(results) > 0 && results[0].T != nil && results[0].T.Sort == SStr {
			// a string first result (e.g. the line a reader hands back)
			ex.set(st, "CallResStr"+sfx, Store(ex.get(st, "CallResStr"+sfx, ArraySort(SInt, SStr)), n, results[0].T))
		}
		// the first reference-typed argument after the receiver (a map, pointer or channel handed to the callee)
		first := 0
		if fn.Signature.Recv() != nil {
			first = 1
		}
		if first == 1 && len(args) > 0 && args[0].T != nil && args[0].T.Sort == SRef {
			ex.set(st, "CallRecv"+sfx, Store(ex.get(st, "CallRecv"+sfx, ArraySort(SInt, SRef)), n, args[0].T))
		}
		for k := first; k < len(args); k++ {
			if args[k].T != nil && args[k].T.Sort == SStr {
				ex.set(st, "CallStr"+sfx, Store(ex.get(st, "CallStr"+sfx, ArraySort(SInt, SStr)), n, args[k].T))
				break
			}
		}
		nth := 0
		for k := first; k < len(args) && nth < 2; k++ {
			if args[k].T != nil && args[k].T.Sort == SRef {
				comp := "CallArg" + sfx
				if nth == 1 {
					comp = "CallArgB" + sfx // the second reference-typed argument
				}
				ex.set(st, comp, Store(ex.get(st, comp, ArraySort(SInt, SRef)), n, args[k].T))
				nth++
			}
		}
		ex.set(st, "CallN"+sfx, Add(n, IntLit(1)))
	}
	switch len(results) {
	case 0:
		return Val{}
	case 1:
		return results[0]
	}
	return Val{Tup: results}
}

func (fr *Frame) siteSuffix(key string) string {
	// sites are told apart by their ordinal among the sites of the same kind (same callee and clause, same
	// field) within the function under verification, not by line: unrelated edits do not rename them
	if fr.ex.siteCount == nil {
		fr.ex.siteCount = map[string]int{}
	}
	fr.ex.siteCount[key]++
	return fmt.Sprintf("#%d", fr.ex.siteCount[key])
}

// ---------------------------------------------------------------- loops

// resolveLoopVar finds the value of source variable name at loop header h.
func (fr *Frame) resolveLoopVar(st *State, li *loopInfo, name string) (Val, bool) {
	// header phi named after the variable
	for _, in := range li.header.Instrs {
		phi, ok := in.(*ssa.Phi)
		if !ok {
			break
		}
		if phi.Comment == name {
			return fr.regs[phi], true
		}
	}
	// a header phi of an enclosing loop (e.g. the range index of the outer loop, seen from an inner one)
	for _, b := range fr.fn.Blocks {
		if b == li.header || !b.Dominates(li.header) {
			continue
		}
		for _, in := range b.Instrs {
			phi, ok := in.(*ssa.Phi)
			if !ok {
				break
			}
			if phi.Comment == name {
				if v, have := fr.regs[phi]; have {
					return v, true
				}
			}
		}
	}
	// a value defined outside (dominating) the loop, found through debug refs
	var best ssa.Value
	var bestAddr bool
	for _, b := range fr.fn.Blocks {
		for _, in := range b.Instrs {
			dr, ok := in.(*ssa.DebugRef)
			if !ok {
				continue
			}
			obj := dr.Object()
			if obj == nil || obj.Name() != name {
				continue
			}
			if _, isVar := obj.(*types.Var); !isVar {
				continue
			}
			x := dr.X
			if xi, ok := x.(ssa.Instruction); ok {
				// only values whose definition dominates the loop header denote the
				// variable's value at the header (header phis were handled above)
				if xi.Block() == li.header {
					if _, isPhi := x.(*ssa.Phi); !isPhi {
						continue
					}
				} else if !xi.Block().Dominates(li.header) {
					continue
				}
				if _, have := fr.regs[x]; !have {
					continue
				}
			}
			best = x
			bestAddr = dr.IsAddr
		}
	}
	if best == nil {
		return Val{}, false
	}
	v := fr.val(st, best)
	if bestAddr {
		l := fr.ex.locFromPtr(v, best.Type())
		return Val{T: fr.ex.load(st, l)}, true
	}
	return v, true
}

func (fr *Frame) loopClauses(st *State, li *loopInfo) ([]clauseInst, bool) {
	ex := fr.ex
	if fr.contract == nil {
		return nil, true
	}
	lf := fr.contract.Loops[li.ord]
	if lf == nil {
		return nil, true
	}
	args := append([]Val(nil), fr.specArgs...)
	nFixed := len(args)
	for i := nFixed; i < len(lf.Params); i++ {
		name := lf.Params[i].Name()
		if src, ok := fr.contract.C.LoopAlias[fmt.Sprintf("%d.%s", li.ord, name)]; ok {
			name = src
		}
		v, ok := fr.resolveLoopVar(st, li, name)
		if !ok {
			ex.note("STALE-CONTRACT: loop %d of %s: variable %q not found", li.ord, fr.fn.Name(), name)
			return nil, false
		}
		if v.T == nil {
			ex.note("STALE-CONTRACT: loop %d of %s: variable %q has no term value", li.ord, fr.fn.Name(), name)
			return nil, false
		}
		if want := ex.ctx.SortOf(lf.Params[i].Type()); want != v.T.Sort {
			ex.note("STALE-CONTRACT: loop %d of %s: variable %q has sort %s, contract says %s", li.ord, fr.fn.Name(), name, v.T.Sort, want)
			return nil, false
		}
		args = append(args, v)
	}
	return ex.evalSpec(lf, args), true
}

func (fr *Frame) enterLoop(li *loopInfo, st *State, b *ssa.BasicBlock) {
	ex := fr.ex
	// 1. invariant holds on entry
	if ex.ghost == 0 {
		cls, ok := fr.loopClauses(st, li)
		if ok {
			for _, cl := range cls {
				if cl.Kind == "fact" {
					ex.assume(st, ex.inst(cl.Cond, fr.pre, st))
				}
			}
			for _, cl := range cls {
				if cl.Kind == "invariant" {
					ex.assert(st, fmt.Sprintf("loop%d.entry", li.ord), cl.Name, cl.Tags, ex.inst(Implies(cl.PC, cl.Cond), fr.pre, st), fr.pos(li.pos))
				}
			}
		}
	}
	// 2. discover what the body writes (dry run)
	mod := fr.loopMod(li, st)
	if os.Getenv("VC_DEBUG") != "" && ex.quiet == 0 {
		fmt.Fprintf(os.Stderr, "LOOPMOD %s loop%d %v\n", fr.fn.Name(), li.ord, sortedKeys(mod))
	}
	// 3. havoc
	for _, in := range li.header.Instrs {
		phi, ok := in.(*ssa.Phi)
		if !ok {
			break
		}
		old := fr.regs[phi]
		if old.T == nil {
			if old.L != nil || old.Tup != nil {
				ex.unsupported("loop-carried non-term value %s", phi.Name())
			}
		}
		nv := ex.ctx.Fresh(fr.fn.Name()+"."+phi.Comment+"."+phi.Name(), ex.ctx.SortOf(phi.Type()))
		fr.regs[phi] = Val{T: nv, Clo: old.Clo}
		if ex.ghost == 0 {
			ex.assume(st, ex.typeFacts(nv, phi.Type()))
			fr.loadFacts(st, nv, phi.Type())
		}
	}
	allocAtEntry := ex.get(st, "Alloc", ArraySort(SRef, SBool))
	for _, comp := range sortedKeys(mod) {
		sort := ex.compSort[comp]
		old := ex.get(st, comp, sort)
		nw := ex.ctx.Fresh("lh."+comp, sort)
		st.heap[comp] = nw
		if comp == "Alloc" && ex.ghost == 0 {
			r := Bound{Name: ex.boundName("r"), Sort: SRef}
			ex.assume(st, Forall([]Bound{r}, Implies(Select(old, V(r.Name, SRef)), Select(nw, V(r.Name, SRef)))))
		}
		if li.freshOnly[comp] && ex.ghost == 0 && strings.HasPrefix(sort, "(Array Ref ") {
			// the body writes this component only at objects it allocates itself:
			// objects that existed when the loop was entered keep their value
			ex.preserveAllocated(st, allocAtEntry, old, nw)
		}
	}
	// 4. assume the invariant
	if ex.ghost == 0 {
		cls, ok := fr.loopClauses(st, li)
		if ok {
			for _, cl := range cls {
				if cl.Kind == "invariant" || cl.Kind == "fact" {
					ex.assume(st, ex.inst(Implies(cl.PC, cl.Cond), fr.pre, st))
				}
			}
		}
	}
}

func (fr *Frame) backEdge(li *loopInfo, st *State, from *ssa.BasicBlock) {
	ex := fr.ex
	if ex.ghost > 0 || li == nil || fr.dry > 0 {
		return
	}
	// phi values along this edge
	saved := map[*ssa.Phi]Val{}
	idx := predIndex(li.header, from)
	var news []Val
	var phis []*ssa.Phi
	for _, in := range li.header.Instrs {
		phi, ok := in.(*ssa.Phi)
		if !ok {
			break
		}
		phis = append(phis, phi)
		news = append(news, fr.val(st, phi.Edges[idx]))
	}
	for i, phi := range phis {
		saved[phi] = fr.regs[phi]
		fr.regs[phi] = news[i]
	}
	cls, ok := fr.loopClauses(st, li)
	if ok {
		for _, cl := range cls {
			if cl.Kind == "fact" {
				ex.assume(st, ex.inst(cl.Cond, fr.pre, st))
			}
		}
		for _, cl := range cls {
			if cl.Kind == "invariant" {
				ex.assert(st, fmt.Sprintf("loop%d.step", li.ord), cl.Name, cl.Tags, ex.inst(Implies(cl.PC, cl.Cond), fr.pre, st), fr.pos(li.pos))
			}
		}
	}
	for phi, v := range saved {
		fr.regs[phi] = v
	}
}

// loopMod executes the loop body once without recording obligations, only to
// learn which heap components it writes.
func (fr *Frame) loopMod(li *loopInfo, st *State) map[string]bool {
	ex := fr.ex
	if li.mod != nil && li.modDone {
		return li.mod
	}
	savedWritten := ex.written
	ex.written = map[string]bool{}
	savedAssumes := len(ex.assumes)
	savedObls := len(ex.obls)
	savedRets := len(fr.rets)
	savedPanics := len(fr.panics)
	savedNotes := len(ex.notes)
	savedSpawn := len(ex.spawned)
	ex.quiet++
	fr.dry++
	logStart := len(ex.writeLog)
	n0 := ex.ctx.n
	func() {
		defer func() {
			ex.quiet--
			fr.dry--
		}()
		fr.runBlocks(li, st.clone())
	}()
	li.freshOnly = ex.freshOnlyComps(logStart, n0)
	mod := ex.written
	ex.written = savedWritten
	for k := range mod {
		ex.written[k] = true
	}
	ex.assumes = ex.assumes[:savedAssumes]
	ex.obls = ex.obls[:savedObls]
	fr.rets = fr.rets[:savedRets]
	fr.panics = fr.panics[:savedPanics]
	ex.notes = ex.notes[:savedNotes]
	ex.spawned = ex.spawned[:savedSpawn]
	// locals declared inside the loop body need no havoc, but it is harmless
	li.mod = mod
	li.modDone = true
	return mod
}

// logCounterOf names the counter component of an append-only ghost log component ("" if comp is not one).
func logCounterOf(comp string) string {
	for _, p := range []string{"CallFn", "CallRet", "CallArgB", "CallArg", "CallResStr", "CallRes", "CallRecv", "CallStr"} {
		if comp == p {
			return "CallN"
		}
		if strings.HasPrefix(comp, p+"_") {
			return "CallN_" + strings.TrimPrefix(comp, p+"_")
		}
	}
	if comp == "CallN" || strings.HasPrefix(comp, "CallN_") || strings.HasPrefix(comp, "LogN_") || comp == "LibFailN" {
		return comp
	}
	if strings.HasPrefix(comp, "Log_") {
		name := strings.TrimPrefix(comp, "Log_")
		// companion logs share the counter of their main log (packetlen -> packets, queuedlen -> queued, ...)
		switch name {
		case "packetlen":
			name = "packets"
		case "queuedlen":
			name = "queued"
		case "ipcsenterr", "ipcsentobj":
			name = "ipcsent"
		case "writtento":
			name = "written"
		}
		return "LogN_" + name
	}
	return ""
}

// alphaKey prints a term with the variables bound inside it renamed in order of binding, so that two copies of the
// same predicate (whose inner quantifiers got different fresh names) have the same key.
func alphaKey(t *Term) string {
	var names []string
	seen := map[string]bool{}
	var walk func(t *Term)
	walk = func(t *Term) {
		for _, b := range t.Bound {
			if !seen[b.Name] {
				seen[b.Name] = true
				names = append(names, b.Name)
			}
		}
		for _, a := range t.Args {
			walk(a)
		}
	}
	walk(t)
	s := t.String()
	if len(names) == 0 {
		return s
	}
	idx := map[string]int{}
	for i, n := range names {
		idx[n] = i
	}
	sorted := append([]string(nil), names...)
	sort.Slice(sorted, func(i, j int) bool { return len(sorted[i]) > len(sorted[j]) })
	for _, n := range sorted {
		s = strings.ReplaceAll(s, n, fmt.Sprintf("\x00%d\x01", idx[n]))
	}
	return s
}
