package main

import (
	"context"
	"encoding/json"
	"fmt"
	"os"
	"os/exec"
	"path/filepath"
	"strings"
	"time"
)

// ReplayDriver names an in-package Go test (kept under /verif/replay) that
// runs the real code and prints REPLAY-CONFIRMED when it observes the failure
// that a refuted obligation predicts.
type ReplayDriver struct {
	Match string `json:"match"` // substring of the obligation name
	Pkg   string `json:"pkg"`   // package directory relative to the repository, e.g. "serf"
	File  string `json:"file"`  // test file under /verif/replay
	Test  string `json:"test"`  // test function
}

// replay tries to confirm a refuted obligation on the real code. It returns
// the replay file and whether the failure was reproduced.
func (r *Run) replay(o *Obligation, fr *FuncResult) (string, bool) {
	path := r.writeReplayFile(o, fr, "obligation refuted by the solver (counter-model attached)")
	drv := r.driverFor(o.Name)
	if drv == nil {
		return path, false
	}
	return r.replayWith(o, fr, path, drv)
}

// replayWith runs a driver and records its verdict in the replay file.
func (r *Run) replayWith(o *Obligation, fr *FuncResult, path string, drv *ReplayDriver) (string, bool) {
	out, confirmed := r.runDriver(drv, parseValues(o))
	// append the driver's verdict to the replay file
	rec := map[string]any{}
	if data, err := os.ReadFile(path); err == nil {
		json.Unmarshal(data, &rec)
	}
	rec["replay_driver"] = drv.File + ":" + drv.Test
	rec["replay_output"] = truncate(out, 4000)
	rec["replay_confirmed"] = confirmed
	data, _ := json.MarshalIndent(rec, "", " ")
	os.WriteFile(path, data, 0o644)
	return path, confirmed
}

func (r *Run) driverFor(name string) *ReplayDriver {
	if r.Cfg == nil {
		return nil
	}
	for i := range r.Cfg.Drivers {
		d := &r.Cfg.Drivers[i]
		if strings.Contains(name, d.Match) {
			return d
		}
	}
	return nil
}

// runDriver injects the driver with `go test -overlay` (nothing is written
// into the repository) and runs it against the tree under verification.
func (r *Run) runDriver(d *ReplayDriver, model map[string]string) (string, bool) {
	tmp, err := os.MkdirTemp("/var/tmp", "vc-replay-")
	if err != nil {
		return err.Error(), false
	}
	defer os.RemoveAll(tmp)
	ov := map[string]any{"Replace": map[string]string{
		filepath.Join(r.Repo, d.Pkg, "zz_verif_replay_test.go"): filepath.Join(r.Verif, "replay", d.File),
	}}
	ovData, _ := json.Marshal(ov)
	ovPath := filepath.Join(tmp, "ov.json")
	os.WriteFile(ovPath, ovData, 0o644)
	modelData, _ := json.Marshal(model)
	modelPath := filepath.Join(tmp, "model.json")
	os.WriteFile(modelPath, modelData, 0o644)
	ctx, cancel := context.WithTimeout(context.Background(), 150*time.Second)
	defer cancel()
	cmd := exec.CommandContext(ctx, "go", "test", "-overlay", ovPath, "-vet=off", "-timeout", "120s", "-count=1", "-v", "-run", "^"+d.Test+"$", "./"+d.Pkg)
	cmd.Dir = r.Repo
	cmd.Env = append(os.Environ(), "VERIF_REPLAY_MODEL="+modelPath, "GOFLAGS=-mod=mod", "GOPROXY=off", "GOSUMDB=off", "GOTOOLCHAIN=local")
	out, _ := cmd.CombinedOutput()
	s := string(out)
	var keep []string
	for _, l := range strings.Split(s, "\n") {
		if strings.Contains(l, "REPLAY-") || strings.HasPrefix(l, "ok") || strings.HasPrefix(l, "FAIL") || strings.HasPrefix(l, "---") || strings.HasPrefix(l, "panic") {
			keep = append(keep, l)
		}
	}
	return strings.Join(keep, "\n"), strings.Contains(s, "REPLAY-CONFIRMED")
}

// cmdReplay re-runs the driver recorded in a replay file.
func cmdReplay(args []string) int {
	var verif, prop, file, repo string
	repo = "/repo"
	for i := 0; i+1 < len(args); i += 2 {
		switch args[i] {
		case "-verif":
			verif = args[i+1]
		case "-prop":
			prop = args[i+1]
		case "-file":
			file = args[i+1]
		case "-repo":
			repo = args[i+1]
		}
	}
	data, err := os.ReadFile(file)
	if err != nil {
		fmt.Fprintln(os.Stderr, err)
		return 2
	}
	var rec map[string]any
	json.Unmarshal(data, &rec)
	fmt.Printf("replay file %s\n  property:   %v\n  obligation: %v\n  reason:     %v\n  solver:     %v (%v)\n", file, rec["property"], rec["obligation"], rec["reason"], rec["solver"], rec["solver_status"])
	var props map[string]*PropCfg
	if pd, err := os.ReadFile(filepath.Join(verif, "props.json")); err == nil {
		json.Unmarshal(pd, &props)
	}
	run := &Run{Prop: prop, Verif: verif, Repo: repo, Cfg: props[prop]}
	name, _ := rec["obligation"].(string)
	drv := run.driverFor(name)
	if drv == nil {
		fmt.Println("  no replay driver for this obligation: the violation stands on the failed obligation and the solver output in the file (no-failing-input-found)")
		return 1
	}
	model := map[string]string{}
	if mv, ok := rec["model_values"].(map[string]any); ok {
		for k, v := range mv {
			model[k] = fmt.Sprint(v)
		}
	}
	out, confirmed := run.runDriver(drv, model)
	fmt.Println(out)
	if confirmed {
		fmt.Printf("VIOLATION property=%s replay=%s\n", prop, file)
		return 1
	}
	fmt.Println("not reproduced on this tree")
	return 0
}
