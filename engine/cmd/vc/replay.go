package main

// replay tries to confirm a refuted obligation on the real code. It returns
// the replay file and whether the failure was reproduced.
func (r *Run) replay(o *Obligation, fr *FuncResult) (string, bool) {
	path := r.writeReplayFile(o, fr, "obligation refuted by the solver (counter-model attached)")
	return path, false
}
