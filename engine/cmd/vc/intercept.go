package main

import (
	"go/constant"
	"go/token"
	"go/types"
	"strings"

	"golang.org/x/tools/go/ssa"
)

// Library models. Every model used is recorded in ex.trusted.

var noEffectPkgs = []string{
	"log", "github.com/hashicorp/go-metrics", "github.com/armon/go-metrics", "github.com/hashicorp/go-metrics/compat",
	"github.com/hashicorp/logutils", "runtime", "runtime/debug", "os/signal",
}

var purePkgs = []string{
	"strings", "bytes", "strconv", "math", "unicode", "unicode/utf8", "path/filepath", "path", "regexp", "net", "sort", "slices", "errors", "time", "encoding/base64", "math/bits",
}

func hasPkgPrefix(pkg string, list []string) bool {
	for _, p := range list {
		if pkg == p || strings.HasPrefix(pkg, p+"/") {
			return true
		}
	}
	return false
}

func recvName(fn *ssa.Function) string {
	if fn.Signature.Recv() == nil {
		return ""
	}
	t := fn.Signature.Recv().Type()
	if p, ok := t.(*types.Pointer); ok {
		t = p.Elem()
	}
	if n, ok := t.(*types.Named); ok {
		return n.Obj().Name()
	}
	return ""
}

func (fr *Frame) intercept(st *State, fn *ssa.Function, pkg string, args []Val, pos token.Pos, instr ssa.Instruction) (Val, bool) {
	ex := fr.ex
	name := fn.Name()
	recv := recvName(fn)
	full := pkg + "." + name
	if recv != "" {
		full = pkg + "." + recv + "." + name
	}
	if o := fn.Origin(); o != nil && o != fn && recv == "" {
		// instantiation of a generic library function: matched by the name of its origin
		full = pkg + "." + o.Name()
	}
	lockState := func() *Term { return ex.get(st, "LockState", ArraySort(SRef, SInt)) }
	if name == "decodeMessage" && ex.w.inScope(pkg) && len(args) == 2 && args[0].T != nil {
		// msgpack decoding is reflection-driven library code: modelled as a deterministic
		// function of the bytes (dec_T / dec_ok_T); decoded values are arbitrary inhabitants of T
		l := args[1].L
		if l == nil && args[1].T != nil && ex.boxedLocs != nil {
			l = ex.boxedLocs[args[1].T.Op]
		}
		if l == nil && args[1].T != nil {
			// pointer to a heap-allocated variable, boxed into the `any` parameter
			if call, ok := instr.(*ssa.Call); ok && len(call.Call.Args) == 2 {
				if mi, ok := call.Call.Args[1].(*ssa.MakeInterface); ok {
					if _, isPtr := mi.X.Type().Underlying().(*types.Pointer); isPtr {
						l = ex.locFromPtr(Val{T: unboxArg(args[1].T)}, mi.X.Type())
					}
				}
			}
		}
		if l != nil && (l.Comp != "" || len(l.Keys) == 1) {
			ex.trusted["decodeMessage: deterministic function of the bytes (uninterpreted dec_T, dec_ok_T); decoded values arbitrary inhabitants of T"] = true
			ok, val := ex.decodeTerms(st, args[0].T, l.Elem)
			if ex.ghost == 0 {
				ex.assume(st, ex.typeFacts(val, l.Elem))
				fr.loadFacts(st, val, l.Elem)
			}
			junk := ex.ctx.Fresh("decjunk", val.Sort)
			ex.store(st, l, Ite(ok, val, junk))
			e := ex.ctx.Fresh("decerr", SIfc)
			ex.assume(st, Neq(e, V("iface_nil", SIfc)))
			return Val{T: Ite(ok, V("iface_nil", SIfc), e)}, true
		}
	}
	if strings.HasSuffix(pkg, "go-msgpack/v2/codec") && recv == "Decoder" && name == "Decode" && len(args) == 2 && args[0].T != nil {
		// a stream decoder: the k-th value it yields is a deterministic function of the decoder and k (whatever the
		// peer wrote); decoded values are arbitrary inhabitants of the target type
		l := args[1].L
		if l == nil && args[1].T != nil && ex.boxedLocs != nil {
			l = ex.boxedLocs[args[1].T.Op]
		}
		if l == nil && args[1].T != nil {
			if call, ok := instr.(*ssa.Call); ok && len(call.Call.Args) == 2 {
				if mi, ok := call.Call.Args[1].(*ssa.MakeInterface); ok {
					if _, isPtr := mi.X.Type().Underlying().(*types.Pointer); isPtr {
						l = ex.locFromPtr(Val{T: unboxArg(args[1].T)}, mi.X.Type())
					}
				}
			}
		}
		if l != nil && (l.Comp != "" || len(l.Keys) == 1) {
			ex.trusted["codec.Decoder.Decode: the k-th value read from a stream is a deterministic function of (decoder, k); decoded values arbitrary inhabitants of T"] = true
			ok, val := ex.streamDecodeTerms(st, args[0].T, l.Elem)
			if ex.ghost == 0 {
				ex.assume(st, ex.typeFacts(val, l.Elem))
				fr.loadFacts(st, val, l.Elem)
			}
			junk := ex.ctx.Fresh("decjunk", val.Sort)
			ex.store(st, l, Ite(ok, val, junk))
			cnt := ex.get(st, "DecCount", ArraySort(SRef, SInt))
			ex.set(st, "DecCount", Store(cnt, args[0].T, Add(Select(cnt, args[0].T), IntLit(1))))
			e := ex.ctx.Fresh("decerr", SIfc)
			ex.assume(st, Neq(e, V("iface_nil", SIfc)))
			return Val{T: Ite(ok, V("iface_nil", SIfc), e)}, true
		}
	}
	switch full {
	case "sync.Mutex.Lock", "sync.RWMutex.Lock":
		ex.trusted["sync locks: mutual exclusion as specified"] = true
		fr.lockAcquire(st, args[0], true, pos)
		return Val{}, true
	case "sync.Mutex.Unlock", "sync.RWMutex.Unlock":
		fr.lockRelease(st, args[0], true, pos)
		return Val{}, true
	case "sync.RWMutex.RLock":
		ex.trusted["sync locks: mutual exclusion as specified"] = true
		fr.lockAcquire(st, args[0], false, pos)
		return Val{}, true
	case "sync.RWMutex.RUnlock":
		fr.lockRelease(st, args[0], false, pos)
		return Val{}, true
	case "sync.Mutex.TryLock":
		ok := ex.ctx.Fresh("trylock", SBool)
		ls := lockState()
		ex.set(st, "LockState", Ite(ok, Store(ls, args[0].T, IntLit(1)), ls))
		return Val{T: ok}, true
	case "sync.WaitGroup.Add", "sync.WaitGroup.Done", "sync.WaitGroup.Wait", "sync.Cond.Broadcast", "sync.Cond.Signal":
		return Val{}, true
	case "sync/atomic.Uint64.Load", "sync/atomic.Uint32.Load", "sync/atomic.Int64.Load", "sync/atomic.Int32.Load":
		return fr.atomicOp(st, "load", args, fn, pos), true
	case "sync/atomic.Uint64.Add", "sync/atomic.Uint32.Add", "sync/atomic.Int64.Add", "sync/atomic.Int32.Add":
		return fr.atomicOp(st, "add", args, fn, pos), true
	case "sync/atomic.Uint64.Store", "sync/atomic.Uint32.Store", "sync/atomic.Int64.Store", "sync/atomic.Int32.Store":
		return fr.atomicOp(st, "store", args, fn, pos), true
	case "sync/atomic.Uint64.CompareAndSwap", "sync/atomic.Uint32.CompareAndSwap", "sync/atomic.Int64.CompareAndSwap", "sync/atomic.Int32.CompareAndSwap":
		return fr.atomicOp(st, "cas", args, fn, pos), true
	case "maps.Copy":
		// maps.Copy(dst, src): dst gets every entry of src, the others are kept
		if len(args) == 2 && args[0].T != nil && args[1].T != nil && len(fn.Params) == 2 {
			mt := fn.Params[0].Type()
			dom, val, ln, ks, vs := ex.mapComps(mt)
			ds := ArraySort(SRef, ArraySort(ks, SBool))
			vsort := ArraySort(SRef, ArraySort(ks, vs))
			d := ex.get(st, dom, ds)
			vv := ex.get(st, val, vsort)
			dst, src := args[0].T, args[1].T
			srcHas := func(k *Term) *Term { return And(Neq(src, TNull), Select(Select(d, src), k)) }
			kb := Bound{Name: ex.boundName("k"), Sort: ks}
			kv := V(kb.Name, ks)
			if ex.ghost == 0 {
				// writing into a nil map panics (unless there is nothing to copy)
				fr.safetyNamed(st, "mapwrite", Or(Neq(dst, TNull), Forall([]Bound{kb}, Not(srcHas(kv)))), pos, "maps.Copy into nil map", instr)
			}
			nd := ex.ctx.Fresh("mapscopy.dom", ArraySort(ks, SBool))
			nv := ex.ctx.Fresh("mapscopy.val", ArraySort(ks, vs))
			ex.assume(st, Forall([]Bound{kb}, And(
				Eq(Select(nd, kv), Or(Select(Select(d, dst), kv), srcHas(kv))),
				Eq(Select(nv, kv), Ite(srcHas(kv), Select(Select(vv, src), kv), Select(Select(vv, dst), kv))))))
			ex.set(st, dom, Store(d, dst, nd))
			ex.set(st, val, Store(vv, dst, nv))
			lc := ex.get(st, ln, ArraySort(SRef, SInt))
			nl := ex.ctx.Fresh("mapscopy.len", SInt)
			ex.assume(st, Ge(nl, Select(lc, dst)))
			ex.set(st, ln, Store(lc, dst, nl))
			ex.trusted["maps.Copy(dst, src): dst receives every entry of src and keeps its other entries"] = true
			return Val{}, true
		}
	case "bufio.NewWriter", "bufio.NewReader", "bufio.NewWriterSize", "bufio.NewReaderSize", "bufio.NewScanner", "time.NewTicker", "time.NewTimer":
		// library constructors return a new, non-nil object
		ex.trusted["library constructors (bufio.NewWriter/NewReader/NewScanner, time.NewTicker/NewTimer) return a new non-nil object"] = true
		return Val{T: fr.newRef(st, "lib."+name)}, true
	case "os.File.Close":
		// closing a file twice is an error, every time; closing an open file may fail for reasons of its own
		if len(args) == 1 && args[0].T != nil {
			ex.trusted["os.File.Close: returns an error whenever the file was already closed (and possibly otherwise); the file is closed afterwards"] = true
			fc := ex.get(st, "FileClosed", ArraySort(SRef, SBool))
			was := Select(fc, args[0].T)
			e := ex.ctx.Fresh("closeerr", SIfc)
			ex.assume(st, Implies(was, Neq(e, V("iface_nil", SIfc))))
			if ex.ghost == 0 {
				n := ex.get(st, "LibFailN", SInt)
				ex.set(st, "LibFailN", Add(n, Ite(Or(was, Eq(e, V("iface_nil", SIfc))), IntLit(0), IntLit(1))))
				ex.set(st, "FileClosed", Store(fc, args[0].T, TTrue))
			}
			return Val{T: e}, true
		}
	case "os.OpenFile", "os.Open", "os.Create":
		// (file, err): a nil error comes with a non-nil file
		ex.trusted["os.OpenFile/Open/Create: either an error or a non-nil *os.File"] = true
		f := ex.ctx.Fresh("osfile", SRef)
		e := ex.ctx.Fresh("oserr", SIfc)
		ex.assume(st, Implies(Eq(e, V("iface_nil", SIfc)), Neq(f, TNull)))
		if ex.ghost == 0 {
			n := ex.get(st, "LibFailN", SInt)
			ex.set(st, "LibFailN", Add(n, Ite(Eq(e, V("iface_nil", SIfc)), IntLit(0), IntLit(1))))
			// a file just opened is open
			fc := ex.get(st, "FileClosed", ArraySort(SRef, SBool))
			ex.set(st, "FileClosed", Store(fc, f, TFalse))
		}
		return Val{Tup: []Val{{T: f}, {T: e}}}, true
	case "github.com/hashicorp/serf/serf.EventType.String", "github.com/hashicorp/serf/serf.MemberStatus.String",
		"github.com/hashicorp/serf/serf.QueryResponse.AckCh", "github.com/hashicorp/serf/serf.QueryResponse.ResponseCh", "github.com/hashicorp/serf/serf.QueryResponse.Deadline":
		// (and the accessors of a query's channels and deadline: fields that are set once when the query is created)
		// the name of an event kind / member status: a pure function of the value (the serf package is outside the
		// agent's scope)
		if !ex.w.inScope(pkg) {
			return fr.pureCall(st, fn, full, args), true
		}
	case "sync/atomic.Value.Load":
		// atomic.Value: all values ever stored have one concrete type (Store panics otherwise), so what another
		// thread may have stored since is an arbitrary value of the type of the value last seen here
		ex.trusted["sync/atomic.Value: Load returns a value of the concrete type that was stored (Store of another type panics in the storing thread)"] = true
		cs := ArraySort(SRef, SIfc)
		h := ex.get(st, "AtomicValue", cs)
		cur := Select(h, args[0].T)
		if ex.ghost > 0 {
			return Val{T: cur}, true
		}
		v := ex.ctx.Fresh("atomicvalue", SIfc)
		ex.assume(st, Eq(App("typeof", SInt, v), App("typeof", SInt, cur)))
		ex.assume(st, Eq(Eq(v, V("iface_nil", SIfc)), Eq(cur, V("iface_nil", SIfc))))
		ex.set(st, "AtomicValue", Store(h, args[0].T, v))
		return Val{T: v}, true
	case "sync/atomic.Value.Store":
		cs := ArraySort(SRef, SIfc)
		h := ex.get(st, "AtomicValue", cs)
		ex.set(st, "AtomicValue", Store(h, args[0].T, args[1].T))
		return Val{}, true
	case "fmt.Sprintf", "fmt.Sprint", "fmt.Sprintln":
		if name == "Sprintf" && len(args) == 2 && args[0].T != nil {
			// formatting strings, integers and booleans depends on nothing but their values: a function of the format
			// and the operands (uninterpreted: nothing is assumed about what the text looks like)
			if ops, ok := variadicBasicOperands(instr); ok {
				ex.trusted["fmt.Sprintf with only string/integer/boolean operands: an uninterpreted function of the format and the operands"] = true
				ts := []*Term{args[0].T}
				uf := "uf.sprintf"
				for _, o := range ops {
					v := fr.val(st, o)
					if v.T == nil {
						ts = nil
						break
					}
					ts = append(ts, v.T)
					uf += "." + sanitize(string(v.T.Sort))
				}
				if ts != nil {
					if fc, ok := sprintfFormatConst(instr); ok && len(fc) > 0 && fc[0] != '%' && ex.ghost == 0 {
						// the text starts with the format's first character
						ex.assume(st, Eq(ex.ctx.UF("str_first", SInt, ex.ctx.UF(uf, SStr, ts...)), IntLit(int64(fc[0]))))
					}
					if fc, ok := sprintfFormatConst(instr); ok && len(ops) == 1 && ts[1].Sort == SInt && ex.ghost == 0 && strings.Count(fc, "%") == 1 && strings.Contains(fc, "%d") {
						// ground instance of the injectivity axiom below (ground queries leave the quantified axioms out)
						ex.assume(st, Eq(ex.ctx.UF("uf.sprintf.inv", SInt, ts[0], ex.ctx.UF(uf, SStr, ts...)), ts[1]))
					}
					if len(ops) == 1 && ts[1].Sort == SInt && !ex.sprintfInj[uf] {
						// a format with a single integer operand, used with formats whose only verb is %d (checked where
						// the axiom is used: it is stated for the formats that are such constants): distinct numbers
						// print differently, i.e. the operand can be read back from the text
						if fc, ok := sprintfFormatConst(instr); ok && strings.Count(fc, "%") == 1 && strings.Contains(fc, "%d") {
							if ex.sprintfInj == nil {
								ex.sprintfInj = map[string]bool{}
							}
							key := uf + "|" + fc
							if !ex.sprintfInj[key] {
								ex.sprintfInj[key] = true
								ex.trusted["fmt.Sprintf with a constant format whose only verb is %d: distinct integers give distinct texts"] = true
								a := V("a!sp", SInt)
								app := ex.ctx.UF(uf, SStr, ts[0], a)
								inv := ex.ctx.UF("uf.sprintf.inv", SInt, ts[0], app)
								ex.axioms = append(ex.axioms, &Term{Op: "forall", Sort: SBool, Bound: []Bound{{"a!sp", SInt}}, Pat: []*Term{app}, Args: []*Term{Eq(inv, a)}})
								if fc[0] != '%' {
									// ... and the text starts with the format's first character, so texts of formats that start
									// differently are different
									ex.ctx.usesStrFirst = true
									first := ex.ctx.UF("str_first", SInt, app)
									ex.axioms = append(ex.axioms, &Term{Op: "forall", Sort: SBool, Bound: []Bound{{"a!sp", SInt}}, Pat: []*Term{app}, Args: []*Term{Eq(first, IntLit(int64(fc[0])))}})
								}
							}
						}
					}
					return Val{T: ex.ctx.UF(uf, SStr, ts...)}, true
				}
			}
		}
		ex.trusted["fmt.Sprint*: returns an arbitrary string"] = true
		v := ex.ctx.Fresh("sprintf", SStr)
		return Val{T: v}, true
	case "fmt.Errorf", "errors.New":
		ex.trusted["fmt.Errorf/errors.New: returns a non-nil error"] = true
		v := ex.ctx.Fresh("err", SIfc)
		ex.assume(st, Neq(v, V("iface_nil", SIfc)))
		return Val{T: v}, true
	case "fmt.Printf", "fmt.Println", "fmt.Fprintf", "fmt.Fprintln", "fmt.Print":
		return fr.havocResult(st, fn.Signature.Results(), "fmt"), true
	case "time.Now":
		ex.trusted["time: Now arbitrary, Sub/After/Before/Add uninterpreted functions of their operands"] = true
		v := fr.havocResult(st, fn.Signature.Results(), "now")
		if ex.ghost == 0 && v.T != nil {
			// ghost log of the clock readings of this call ("now"), so that contracts can speak about them
			ex.logAppend(st, "now", v.T)
		}
		return v, true
	case "math/rand.Intn", "math/rand.Int63n", "math/rand.Int31n", "math/rand/v2.IntN":
		ex.trusted["math/rand.Intn(n): an arbitrary value in [0,n); panics for n <= 0"] = true
		fr.safetyNamed(st, "assert", Gt(args[0].T, IntLit(0)), pos, "rand.Intn argument > 0", instr)
		v := ex.ctx.Fresh("rand", SInt)
		ex.assume(st, And(Le(IntLit(0), v), Lt(v, args[0].T)))
		return Val{T: v}, true
	case "math/rand.Uint32", "math/rand.Int31", "math/rand.Int63", "math/rand.Int":
		ex.trusted["math/rand: arbitrary value of the result type"] = true
		return fr.havocResult(st, fn.Signature.Results(), "rand"), true
	case "math.Sqrt":
		ex.trusted["math.Sqrt: real square root (no rounding)"] = true
		x := args[0].T
		r := ex.ctx.UF("real_sqrt", SReal, x)
		if ex.ghost == 0 {
			ex.assume(st, Implies(App(">=", SBool, x, RealLit("0.0")), And(App(">=", SBool, r, RealLit("0.0")), Eq(App("*", SReal, r, r), x))))
		}
		return Val{T: r}, true
	case "math.Max":
		return Val{T: Ite(App(">=", SBool, args[0].T, args[1].T), args[0].T, args[1].T)}, true
	case "math.Min":
		return Val{T: Ite(App("<=", SBool, args[0].T, args[1].T), args[0].T, args[1].T)}, true
	case "math.Abs":
		return Val{T: Ite(App(">=", SBool, args[0].T, RealLit("0.0")), args[0].T, App("-", SReal, args[0].T))}, true
	}
	if pkg == "slices" && fn.Origin() != nil && fn.Origin().Name() == "Contains" && len(args) == 2 && args[0].T != nil && args[1].T != nil {
		// slices.Contains by its definition: some element equals v
		if sl, ok := fn.Params[0].Type().Underlying().(*types.Slice); ok {
			ex.trusted["slices.Contains(s, v): exists i < len(s) with s[i] == v"] = true
			c, cs := ex.elemsComp(sl.Elem())
			content := Select(ex.get(st, c, cs), SArr(args[0].T))
			ib := Bound{Name: ex.boundName("ci"), Sort: SInt}
			iv := V(ib.Name, SInt)
			return Val{T: Exists([]Bound{ib}, And(Le(IntLit(0), iv), Lt(iv, SLen(args[0].T)), Eq(ex.slAt(content, SOff(args[0].T), iv), args[1].T)))}, true
		}
	}
	if hasPkgPrefix(pkg, noEffectPkgs) {
		ex.trusted["logging/metrics/runtime calls: no effect on modelled state"] = true
		return fr.havocResult(st, fn.Signature.Results(), "noeff."+name), true
	}
	if hasPkgPrefix(pkg, purePkgs) && !ex.w.inScope(pkg) {
		return fr.pureCall(st, fn, full, args), true
	}
	return Val{}, false
}

// pureCall abstracts a deterministic library function by an uninterpreted
// function of its arguments (slice arguments contribute their contents).
func (fr *Frame) pureCall(st *State, fn *ssa.Function, full string, args []Val) Val {
	ex := fr.ex
	ex.trusted["pure library functions abstracted as uninterpreted functions of their arguments: "+full] = true
	var ts []*Term
	params := fn.Params
	for i, a := range args {
		if a.T == nil {
			ex.unsupported("non-term argument to %s", full)
		}
		if i < len(params) {
			if sl, ok := params[i].Type().Underlying().(*types.Slice); ok {
				c, cs := ex.elemsComp(sl.Elem())
				ts = append(ts, Select(ex.get(st, c, cs), SArr(a.T)), SOff(a.T), SLen(a.T))
				continue
			}
		}
		ts = append(ts, a.T)
	}
	res := fn.Signature.Results()
	mk := func(i int, t types.Type) Val {
		s := ex.ctx.SortOf(t)
		if _, isSlice := t.Underlying().(*types.Slice); isSlice {
			v := ex.ctx.Fresh("pure."+fn.Name(), s)
			if ex.ghost == 0 {
				ex.assume(st, ex.typeFacts(v, t))
			}
			return Val{T: v}
		}
		name := "uf." + sanitize(full)
		if res.Len() > 1 {
			name += "." + itoa(i)
		}
		_, seen := ex.ctx.declared[name]
		v := ex.ctx.UF(name, s, ts...)
		if len(ts) == 0 {
			v = ex.ctx.Const(name+".c", s)
		}
		if !seen && full == "bytes.Equal" && len(ts) == 6 {
			// bytes.Equal is reflexive, and equal byte strings have equal length
			ex.trusted["bytes.Equal: uninterpreted, reflexive, implies equal lengths"] = true
			cs := ts[0].Sort
			c1, o1, l1 := V("c1!ax", cs), V("o1!ax", SInt), V("l1!ax", SInt)
			c2, o2, l2 := V("c2!ax", cs), V("o2!ax", SInt), V("l2!ax", SInt)
			refl := App(name, SBool, c1, o1, l1, c1, o1, l1)
			ex.axioms = append(ex.axioms, &Term{Op: "forall", Sort: SBool, Pat: []*Term{refl}, Bound: []Bound{{"c1!ax", cs}, {"o1!ax", SInt}, {"l1!ax", SInt}}, Args: []*Term{refl}})
			eq := App(name, SBool, c1, o1, l1, c2, o2, l2)
			ex.axioms = append(ex.axioms, &Term{Op: "forall", Sort: SBool, Pat: []*Term{eq},
				Bound: []Bound{{"c1!ax", cs}, {"o1!ax", SInt}, {"l1!ax", SInt}, {"c2!ax", cs}, {"o2!ax", SInt}, {"l2!ax", SInt}},
				Args:  []*Term{Implies(eq, Eq(l1, l2))}})
		}
		if ex.ghost == 0 && (full == "strings.Index" || full == "strings.LastIndex") && len(ts) == 2 && s == SInt {
			// the position of a substring: -1, or a position at which the substring fits
			ex.trusted["strings.Index/LastIndex: the result is -1 or a position at which the substring fits into the string"] = true
			ex.assume(st, Or(Eq(v, IntLit(-1)), And(Le(IntLit(0), v), Le(Add(v, App("str_len", SInt, ts[1])), App("str_len", SInt, ts[0])))))
		}
		if ex.ghost == 0 {
			ex.assume(st, ex.typeFacts(v, t))
			if (fn.Name() == "Len" || fn.Name() == "Cap" || fn.Name() == "Size") && s == SInt && fn.Signature.Recv() != nil {
				ex.trusted["library Len/Cap/Size methods return a non-negative value: "+full] = true
				ex.assume(st, Le(IntLit(0), v))
			}
		}
		return Val{T: v}
	}
	switch res.Len() {
	case 0:
		return Val{}
	case 1:
		return mk(0, res.At(0).Type())
	}
	var tup []Val
	for i := 0; i < res.Len(); i++ {
		tup = append(tup, mk(i, res.At(i).Type()))
	}
	return Val{Tup: tup}
}

func (fr *Frame) interceptInvoke(st *State, ifaceName string, iface types.Type, m *types.Func, recv Val, args []Val, pos token.Pos) (Val, bool) {
	ex := fr.ex
	switch {
	case ifaceName == "error" && m.Name() == "Error":
		return Val{T: ex.ctx.UF("err_string", SStr, recv.T)}, true
	case ifaceName == "Writer" && iface.String() == "io.Writer" && m.Name() == "Write" && len(args) == 1 && args[0].T != nil && args[0].T.Sort == SSlc:
		// an output sink outside the verified code: what is handed to it is recorded in the ghost logs "written" (the
		// slice) and "writtento" (the sink); it does not touch the modelled state, its results are arbitrary
		ex.trusted["io.Writer.Write on a sink outside the verified code: records the write in a ghost log, no effect on modelled state, returns arbitrary (n, err)"] = true
		if ex.ghost == 0 {
			nc := "LogN_written"
			n := ex.get(st, nc, SInt)
			ex.set(st, "Log_written", Store(ex.get(st, "Log_written", ArraySort(SInt, SSlc)), n, args[0].T))
			ex.set(st, "Log_writtento", Store(ex.get(st, "Log_writtento", ArraySort(SInt, SIfc)), n, recv.T))
			ex.set(st, nc, Add(n, IntLit(1)))
		}
		nres := ex.ctx.Fresh("write.n", SInt)
		eres := ex.ctx.Fresh("write.err", SIfc)
		return Val{Tup: []Val{{T: nres}, {T: eres}}}, true
	}
	return Val{}, false
}

// ---------------------------------------------------------------- locks

func (fr *Frame) lockAcquire(st *State, l Val, write bool, pos token.Pos) {
	ex := fr.ex
	ls := ex.get(st, "LockState", ArraySort(SRef, SInt))
	v := IntLit(1)
	if !write {
		v = IntLit(2)
	}
	if ex.ghost == 0 && l.Origin != "" {
		fr.lockHavoc(st, l, pos)
	}
	ex.set(st, "LockState", Store(ls, l.T, v))
}

func (fr *Frame) lockRelease(st *State, l Val, write bool, pos token.Pos) {
	ex := fr.ex
	ls := ex.get(st, "LockState", ArraySort(SRef, SInt))
	if ex.ghost == 0 && l.Origin != "" {
		fr.lockGuarantee(st, l, pos)
	}
	ex.set(st, "LockState", Store(ls, l.T, IntLit(0)))
}

// guardCheck emits held(lock) obligations for accesses to guarded fields.
func (fr *Frame) guardCheck(st *State, p Val, write bool, pos token.Pos) {
	ex := fr.ex
	if ex.ghost > 0 || !ex.lockChecks || p.L == nil || p.L.Origin == "" || len(p.L.Keys) == 0 {
		return
	}
	lock, ok := ex.w.guards[p.L.Origin]
	if !ok {
		return
	}
	fr.heldObligation(st, p.L.Keys[0], p.L.Origin, lock, write, pos)
}

func (fr *Frame) heldObligation(st *State, base *Term, field, lock string, write bool, pos token.Pos) {
	ex := fr.ex
	parts := strings.SplitN(lock, ".", 2)
	fieldName := parts[1]
	// locate the lock sub-object of the same base object
	stt := ex.w.namedStruct(parts[0])
	if stt == nil {
		ex.note("STALE-CONTRACT: guards: type %s not found", parts[0])
		return
	}
	u := stt.Underlying().(*types.Struct)
	idx := -1
	for i := 0; i < u.NumFields(); i++ {
		if u.Field(i).Name() == fieldName {
			idx = i
		}
	}
	if idx < 0 {
		ex.note("STALE-CONTRACT: guards: field %s not found", lock)
		return
	}
	lref := ex.subRef(base, stt, idx, st)
	ls := ex.get(st, "LockState", ArraySort(SRef, SInt))
	var goal *Term
	mode := "r"
	if write {
		goal = Eq(Select(ls, lref), IntLit(1))
		mode = "w"
	} else {
		goal = Ge(Select(ls, lref), IntLit(1))
	}
	// constructor exemption: an object this call allocated itself is not shared yet
	ex.trusted["lock discipline: fields of an object allocated by the running call may be initialised without its lock (not yet published)"] = true
	goal = Or(goal, Not(Select(ex.ctx.Const("Alloc!pre", ArraySort(SRef, SBool)), base)))
	ex.assert(st, "held", lock+"@"+field+":"+mode+":"+fr.fn.Name()+fr.siteSuffix("held:"+field+":"+mode+":"+fr.fn.Name()), ex.w.lockTags, goal, fr.pos(pos))
}

func (fr *Frame) guardCheckMap(st *State, m ssa.Value, write bool, pos token.Pos) {
	ex := fr.ex
	if ex.ghost > 0 || !ex.lockChecks {
		return
	}
	// the map value was loaded from a guarded field
	u, ok := m.(*ssa.UnOp)
	if !ok || u.Op != token.MUL {
		return
	}
	fa, ok := u.X.(*ssa.FieldAddr)
	if !ok {
		return
	}
	stt := derefType(fa.X.Type())
	org := fieldOrigin(stt, fa.Field)
	lock, ok := ex.w.guards[org]
	if !ok {
		return
	}
	base := fr.val(st, fa.X)
	if base.T == nil {
		return
	}
	fr.heldObligation(st, base.T, org+"[]", lock, write, pos)
}

func (w *World) namedStruct(name string) types.Type {
	for _, p := range w.pkgs {
		if o := p.Types.Scope().Lookup(name); o != nil {
			if _, ok := o.Type().Underlying().(*types.Struct); ok {
				return o.Type()
			}
		}
	}
	return nil
}

// lockHavoc / lockGuarantee implement the two-state lock relation (lockrely).
// lockRelyCell locates the heap cell of a lock-protected field of the object the lock belongs to.
func (fr *Frame) lockRelyCell(st *State, l Val, lr LockRely) (comp, cs string, base *Term, vt types.Type, ok bool) {
	ex := fr.ex
	parts := strings.SplitN(lr.Field, ".", 2)
	stt := ex.w.namedStruct(parts[0])
	if stt == nil || len(parts) != 2 {
		ex.note("STALE-CONTRACT: lockrely: type of %s not found", lr.Field)
		return
	}
	u := stt.Underlying().(*types.Struct)
	for i := 0; i < u.NumFields(); i++ {
		if u.Field(i).Name() == parts[1] {
			comp, cs = ex.fieldComp(stt, i)
			vt = u.Field(i).Type()
			ok = true
		}
	}
	if !ok {
		ex.note("STALE-CONTRACT: lockrely: field %s not found", lr.Field)
		return
	}
	if strings.HasPrefix(l.T.Op, "sub_") && len(l.T.Args) == 1 {
		base = l.T.Args[0]
	} else {
		ok = false
	}
	return
}

// lockHavoc: on acquiring a lock, the fields it protects hold whatever the other threads' critical
// sections left there -- any value related to the last one this thread saw by the declared rely.
// lockInvStruct resolves the object a lock belongs to and its struct type.
func (fr *Frame) lockInvBase(l Val, li LockInv) (base *Term, stt types.Type, u *types.Struct, ok bool) {
	ex := fr.ex
	parts := strings.SplitN(li.Lock, ".", 2)
	stt = ex.w.namedStruct(parts[0])
	if stt == nil || len(parts) != 2 || !strings.HasPrefix(l.T.Op, "sub_") || len(l.T.Args) != 1 {
		return nil, nil, nil, false
	}
	return l.T.Args[0], stt, stt.Underlying().(*types.Struct), true
}

// pureByName finds a spec function of the verified packages.
func (w *World) pureByName(name string) *ssa.Function {
	for _, sp := range w.spkgs {
		if f := sp.Func(name); f != nil {
			return f
		}
	}
	return nil
}

// lockInvAcquire: thread-modular reading of Lock(). Whatever the lock protects may have been changed by other
// threads while it was free: the guarded fields and the closed state of the protected channels get arbitrary
// values (closed flags and channels only ever go from open to closed), about which only the invariant is known.
func (fr *Frame) lockInvAcquire(st *State, l Val, pos token.Pos) {
	ex := fr.ex
	li, has := ex.w.lockInvs[l.Origin]
	if !has {
		return
	}
	base, stt, u, ok := fr.lockInvBase(l, li)
	pred := ex.w.pureByName(li.Pred)
	if !ok || pred == nil {
		ex.note("STALE-CONTRACT: lockinv %s: lock object or predicate %s not found", li.Lock, li.Pred)
		return
	}
	ex.trusted["lock invariant "+li.Pred+" of "+li.Lock+": assumed when the lock is taken (other threads' critical sections re-establish it; each critical section verified here is checked to do the same)"] = true
	for i := 0; i < u.NumFields(); i++ {
		f := u.Field(i)
		origin := fieldOrigin(stt, i)
		guarded := ex.w.guards[origin] == li.Lock
		isCh := false
		for _, c := range li.ClosedOf {
			if c == f.Name() {
				isCh = true
			}
		}
		if guarded {
			comp, cs := ex.fieldComp(stt, i)
			h := ex.get(st, comp, cs)
			_, es := arrayParts(cs)
			nv := ex.ctx.Fresh("env."+sanitize(origin), es)
			ex.assume(st, ex.typeFacts(nv, f.Type()))
			if es == SBool {
				// flags protected by the lock only ever go from false to true
				ex.assume(st, Implies(Select(h, base), nv))
			}
			ex.set(st, comp, Store(h, base, nv))
		}
		if isCh {
			comp, cs := ex.fieldComp(stt, i)
			ch := Select(ex.get(st, comp, cs), base)
			cc := "ChanClosed_" + typeKey(chanElem(f.Type()))
			cl := ex.get(st, cc, ArraySort(SRef, SBool))
			nv := ex.ctx.Fresh("env.closed."+sanitize(origin), SBool)
			ex.assume(st, Implies(Select(cl, ch), nv))
			ex.set(st, cc, Store(cl, ch, nv))
		}
	}
	ex.assume(st, fr.ghostApply(st, &Closure{Fn: pred}, []Val{{T: base}}))
}

// lockInvRelease: the critical section must leave the invariant established.
func (fr *Frame) lockInvRelease(st *State, l Val, pos token.Pos) {
	ex := fr.ex
	li, has := ex.w.lockInvs[l.Origin]
	if !has {
		return
	}
	base, _, _, ok := fr.lockInvBase(l, li)
	pred := ex.w.pureByName(li.Pred)
	if !ok || pred == nil {
		return
	}
	g := fr.ghostApply(st, &Closure{Fn: pred}, []Val{{T: base}})
	ex.assert(st, "lockinv", li.Pred+"@"+fr.fn.Name()+fr.siteSuffix("lockinv:"+li.Lock+":"+fr.fn.Name()), ex.w.safetyTags, g, fr.pos(pos))
}

func (fr *Frame) lockHavoc(st *State, l Val, pos token.Pos) {
	ex := fr.ex
	fr.lockInvAcquire(st, l, pos)
	for _, lr := range ex.w.lockRelies[l.Origin] {
		comp, cs, base, vt, ok := fr.lockRelyCell(st, l, lr)
		if !ok {
			continue
		}
		ex.trusted["lock-protected field "+lr.Field+": other threads' critical sections change it only "+lr.Rel+" (each thread's own sections are checked against the same guarantee)"] = true
		h := ex.get(st, comp, cs)
		cur := Select(h, base)
		nv := ex.ctx.Fresh("env."+sanitize(lr.Field), SInt)
		ex.assume(st, ex.typeFacts(nv, vt))
		switch lr.Rel {
		case "nondecreasing":
			ex.assume(st, Ge(nv, cur))
		default:
			ex.unsupported("unknown lockrely relation %s", lr.Rel)
		}
		if lr.Ranged {
			ex.assume(st, And(Le(IntLit(lr.Lo), nv), Le(nv, IntLit(lr.Hi))))
		}
		ex.set(st, comp, Store(h, base, nv))
		// ghost: value of the field when the lock was taken
		gc := "LockEntry_" + sanitize(lr.Field)
		ex.set(st, gc, Store(ex.get(st, gc, ArraySort(SRef, SInt)), base, nv))
	}
}

// lockGuarantee: on release, this thread's critical section must itself have respected the rely.
func (fr *Frame) lockGuarantee(st *State, l Val, pos token.Pos) {
	ex := fr.ex
	fr.lockInvRelease(st, l, pos)
	for _, lr := range ex.w.lockRelies[l.Origin] {
		comp, cs, base, _, ok := fr.lockRelyCell(st, l, lr)
		if !ok {
			continue
		}
		cur := Select(ex.get(st, comp, cs), base)
		entry := Select(ex.get(st, "LockEntry_"+sanitize(lr.Field), ArraySort(SRef, SInt)), base)
		var g *Term
		switch lr.Rel {
		case "nondecreasing":
			g = Ge(cur, entry)
		default:
			continue
		}
		if lr.Ranged {
			g = And(g, Le(IntLit(lr.Lo), cur), Le(cur, IntLit(lr.Hi)))
		}
		ex.assert(st, "guarantee", lr.Field+":"+lr.Rel+":critical-section@"+fr.fn.Name()+fr.siteSuffix("guar:"+lr.Field+":"+fr.fn.Name()), ex.w.safetyTags, g, fr.pos(pos))
	}
}

// ---------------------------------------------------------------- atomics

func (fr *Frame) atomicOp(st *State, op string, args []Val, fn *ssa.Function, pos token.Pos) Val {
	ex := fr.ex
	recv := args[0]
	rt := derefType(fn.Signature.Recv().Type())
	// value type of the atomic
	var vt types.Type = types.Typ[types.Uint64]
	switch recvName(fn) {
	case "Uint32":
		vt = types.Typ[types.Uint32]
	case "Int64":
		vt = types.Typ[types.Int64]
	case "Int32":
		vt = types.Typ[types.Int32]
	}
	_ = rt
	comp := "Atomic_" + recvName(fn)
	cs := ArraySort(SRef, SInt)
	ex.trusted["sync/atomic: each operation is one indivisible step (sequentially consistent)"] = true
	rely := ex.w.relies[recv.Origin]
	if ex.ghost == 0 && rely != "" {
		fr.envStep(st, comp, cs, recv, vt, rely)
		ex.relyTouched = appendUniqueRely(ex.relyTouched, relyLoc{comp, cs, recv, vt, rely})
	}
	h := ex.get(st, comp, cs)
	cur := Select(h, recv.T)
	if ex.ghost == 0 {
		ex.assume(st, ex.typeFacts(cur, vt))
	}
	guarantee := func(nv *Term, cond *Term, what string) {
		if ex.ghost > 0 || rely == "" {
			return
		}
		var g *Term
		switch rely {
		case "nondecreasing":
			g = Ge(nv, cur)
		default:
			ex.unsupported("unknown rely relation %s", rely)
		}
		ex.assert(st, "guarantee", recv.Origin+":"+rely+":"+what+"@"+fr.fn.Name(), ex.w.guaranteeTags(recv.Origin), Implies(cond, g), fr.pos(pos))
	}
	switch op {
	case "load":
		return Val{T: ex.ghostTyped(cur, vt)}
	case "add":
		nv := ex.wrapTo(Add(cur, args[1].T), vt)
		if _, hi, ok := intRange(vt); ok && isUnsigned(vt) && rely != "" && ex.ghost == 0 {
			h, _ := newBig(hi)
			ex.assertCanary(st, "guarantee", recv.Origin+":"+rely+":Add.nowrap@"+fr.fn.Name(), ex.w.guaranteeTags(recv.Origin), Le(Add(cur, args[1].T), BigLit(h)), fr.pos(pos))
		}
		guarantee(nv, TTrue, "Add")
		ex.set(st, comp, Store(h, recv.T, nv))
		if ex.ghost == 0 && recv.Origin != "" {
			// ghost log of the values minted by this thread's own read-modify-write steps
			ex.logAppend(st, "mint."+recv.Origin, nv)
		}
		return Val{T: nv}
	case "store":
		guarantee(args[1].T, TTrue, "Store")
		ex.set(st, comp, Store(h, recv.T, args[1].T))
		return Val{}
	case "cas":
		ok := Eq(cur, args[1].T)
		guarantee(args[2].T, ok, "CompareAndSwap")
		ex.set(st, comp, Ite(ok, Store(h, recv.T, args[2].T), h))
		return Val{T: ok}
	}
	ex.unsupported("atomic op %s", op)
	return Val{}
}

func (ex *Exec) wrapTo(t *Term, vt types.Type) *Term {
	if isUnsigned(vt) {
		return ex.wrap(t, vt)
	}
	return t
}

type relyLoc struct {
	comp, cs string
	recv     Val
	vt       types.Type
	rely     string
}

func appendUniqueRely(l []relyLoc, r relyLoc) []relyLoc {
	for _, x := range l {
		if x.comp == r.comp && sameTerm(x.recv.T, r.recv.T) {
			return l
		}
	}
	return append(l, r)
}

// envStep lets the environment change an atomic cell according to its rely.
func (fr *Frame) envStep(st *State, comp, cs string, recv Val, vt types.Type, rely string) {
	ex := fr.ex
	h := ex.get(st, comp, cs)
	cur := Select(h, recv.T)
	nv := ex.ctx.Fresh("env."+sanitize(recv.Origin), SInt)
	ex.assume(st, ex.typeFacts(nv, vt))
	switch rely {
	case "nondecreasing":
		ex.assume(st, Ge(nv, cur))
	}
	ex.set(st, comp, Store(h, recv.T, nv))
}

// logAppend appends a value to a named ghost log (thread-local history of the
// call being verified; read in contracts through logN/logAt).
func (ex *Exec) logAppend(st *State, name string, v *Term) {
	nc := "LogN_" + sanitize(name)
	lc := "Log_" + sanitize(name)
	n := ex.get(st, nc, SInt)
	l := ex.get(st, lc, ArraySort(SInt, v.Sort))
	ex.set(st, lc, Store(l, n, v))
	ex.set(st, nc, Add(n, IntLit(1)))
}

// guaranteeTags: a guarantee obligation belongs to the property being checked unless tagged otherwise.
func (w *World) guaranteeTags(origin string) []string {
	if t := w.relyTags[origin]; len(t) > 0 {
		return t
	}
	return w.safetyTags
}

// lockRelyOfComp: the lockrely declaration (if any) whose field lives in heap component comp.
func (ex *Exec) lockRelyOfComp(comp string) (LockRely, bool) {
	for _, lrs := range ex.w.lockRelies {
		for _, lr := range lrs {
			parts := strings.SplitN(lr.Field, ".", 2)
			stt := ex.w.namedStruct(parts[0])
			if stt == nil || len(parts) != 2 {
				continue
			}
			u := stt.Underlying().(*types.Struct)
			for i := 0; i < u.NumFields(); i++ {
				if u.Field(i).Name() == parts[1] {
					if c, _ := ex.fieldComp(stt, i); c == comp && lr.Rel == "nondecreasing" {
						return lr, true
					}
				}
			}
		}
	}
	return LockRely{}, false
}

// streamDecodeTerms: success flag and value of the next item a stream decoder yields as type t.
func (ex *Exec) streamDecodeTerms(st *State, dec *Term, t types.Type) (*Term, *Term) {
	cnt := Select(ex.get(st, "DecCount", ArraySort(SRef, SInt)), dec)
	tn := mangleType(t)
	ok := ex.ctx.UF("sdec_ok_"+tn, SBool, dec, cnt)
	val := ex.ctx.UF("sdec_"+tn, ex.ctx.SortOf(t), dec, cnt)
	return ok, val
}

// variadicBasicOperands returns the operands of a variadic call `f(fixed, xs...)` whose variadic slice is built in
// place from values of basic type (string, integer, boolean) boxed into `any` -- the only shape for which the
// formatted text is a function of the operand values alone.
func variadicBasicOperands(instr ssa.Instruction) ([]ssa.Value, bool) {
	call, ok := instr.(ssa.CallInstruction)
	if !ok {
		return nil, false
	}
	a := call.Common().Args
	if len(a) == 0 {
		return nil, false
	}
	last := a[len(a)-1]
	if c, ok := last.(*ssa.Const); ok && c.Value == nil {
		return nil, true // no operands
	}
	sl, ok := last.(*ssa.Slice)
	if !ok || sl.Low != nil || sl.High != nil {
		return nil, false
	}
	al, ok := sl.X.(*ssa.Alloc)
	if !ok {
		return nil, false
	}
	arr, ok := al.Type().Underlying().(*types.Pointer).Elem().Underlying().(*types.Array)
	if !ok {
		return nil, false
	}
	ops := make([]ssa.Value, arr.Len())
	for _, r := range *al.Referrers() {
		switch x := r.(type) {
		case *ssa.Slice:
			if x != sl {
				return nil, false
			}
		case *ssa.IndexAddr:
			ic, ok := x.Index.(*ssa.Const)
			if !ok || ic.Value == nil {
				return nil, false
			}
			i := int(ic.Int64())
			for _, rr := range *x.Referrers() {
				st, ok := rr.(*ssa.Store)
				if !ok || st.Addr != x || i < 0 || i >= len(ops) || ops[i] != nil {
					return nil, false
				}
				mi, ok := st.Val.(*ssa.MakeInterface)
				if !ok {
					return nil, false
				}
				b, ok := mi.X.Type().Underlying().(*types.Basic)
				if !ok || b.Info()&(types.IsString|types.IsInteger|types.IsBoolean) == 0 {
					return nil, false
				}
				if n, isNamed := mi.X.Type().(*types.Named); isNamed && n.NumMethods() > 0 {
					return nil, false // a String/Format/Error method decides the text
				}
				ops[i] = mi.X
			}
		default:
			return nil, false
		}
	}
	for _, o := range ops {
		if o == nil {
			return nil, false
		}
	}
	return ops, true
}

// sprintfFormatConst returns the format of a Sprintf call when it is a string constant.
func sprintfFormatConst(instr ssa.Instruction) (string, bool) {
	call, ok := instr.(ssa.CallInstruction)
	if !ok || len(call.Common().Args) == 0 {
		return "", false
	}
	c, ok := call.Common().Args[0].(*ssa.Const)
	if !ok || c.Value == nil || c.Value.Kind() != constant.String {
		return "", false
	}
	return constant.StringVal(c.Value), true
}
