package main

import (
	"fmt"
	"go/constant"
	"go/token"
	"go/types"
	"math/big"
	"sort"
	"strings"

	"golang.org/x/tools/go/ssa"
)

// ---------------------------------------------------------------- values

type Val struct {
	T      *Term
	L      *Loc
	Tup    []Val
	Clo    *Closure
	Origin string // "Type.field" for pointers obtained by FieldAddr
}

type Closure struct {
	Fn   *ssa.Function
	Bind []Val
}

type pathSel struct {
	St  types.Type
	Idx int
	At  *Term // array index selection when non-nil
}

func newBig(s string) (*big.Int, bool) { return new(big.Int).SetString(s, 10) }

// Loc is the address of a memory cell: heap component, select keys, then
// datatype field path (for struct values stored inside arrays or cells).
type Loc struct {
	Comp     string
	CompSort string
	Keys     []*Term
	Path     []pathSel
	Elem     types.Type
	Origin   string
	// slice element: Keys = [array, off+idx]; loads are printed through the
	// sl_at function so that quantifiers over indices have clean triggers
	SlOff, SlIdx *Term
}

// ---------------------------------------------------------------- obligations

type Obligation struct {
	Name    string
	Kind    string
	Tags    []string
	Goal    *Term
	PC      *Term
	NAssume int
	NLines  int
	Pos     token.Position
	Func    string
	Case    string   // "" main, else canary case name
	Expect  string   // "unsat" (proved) or "sat" for cover checks
	Values  []NamedTerm // terms to evaluate in a model
	Result  *SolveResult
	Extra   *Term
	ex      *Exec
	Canary  bool // expected to fail because of a recorded finding; never counted as proved
}

type NamedTerm struct {
	Name string
	T    *Term
}

// ---------------------------------------------------------------- executor

type State struct {
	pc     *Term
	heap   map[string]*Term
	defers []deferEntry
	base   func(comp, sort string) *Term
	oldDepth int // >0 while evaluating the argument of old(...)
}

type deferEntry struct {
	instr *ssa.Defer
	fr    *Frame
	cond  *Term
}

func (s *State) clone() *State {
	n := &State{pc: s.pc, heap: make(map[string]*Term, len(s.heap)), base: s.base, oldDepth: s.oldDepth}
	for k, v := range s.heap {
		n.heap[k] = v
	}
	n.defers = append([]deferEntry(nil), s.defers...)
	return n
}

type Exec struct {
	sprintfInj map[string]bool // injectivity axioms already stated (Sprintf with a single %d)
	stamps bool // record the forwarding ghost (see chanRecv/chanSend)
	boxAxioms map[string]bool
	cntMarkAx bool
	fsumAx    bool
	subFuns   []string // declared sub-object functions (embedded struct fields)
	witnessAx bool
	w        *World
	ctx      *Ctx
	assumes  []*Term
	obls     []*Obligation
	notes    []string
	trusted  map[string]bool
	compSort map[string]string
	base     func(comp, sort string) *Term
	fnName   string
	safety   bool
	cases    []caseDef
	curCase  *Term // assumption selecting main case (nil if no cases)
	values   []NamedTerm
	boundN   int
	frameN   int
	written  map[string]bool
	ghost    int
	depthMax int
	usedContracts map[string]bool
	inlined  map[string]bool
	inlinedFns map[*ssa.Function]bool
	n2       int
	ghostBoxes []*Term
	collect  *[]clauseInst
	collectFacts *[]*Term // type facts of values read by the spec being evaluated
	quiet    int
	siteCount map[string]int
	spawned  []string
	relyTouched []relyLoc
	lockChecks bool
	axioms   []*Term // global axioms of the memory model (independent of program point)
	slAtSorts map[string]string
	boxedLocs map[string]*Loc
	writeLog  []writeRec
	freshRefs map[string]int
}

type caseDef struct {
	Name string
	Cond *Term
}

func NewExec(w *World, fnName string) *Exec {
	ex := &Exec{w: w, ctx: NewCtx(), trusted: map[string]bool{}, compSort: map[string]string{}, fnName: fnName,
		written: map[string]bool{}, depthMax: 3, usedContracts: map[string]bool{}, inlined: map[string]bool{}}
	ex.base = func(comp, sort string) *Term { return ex.ctx.Const(comp+"!pre", sort) }
	sv := V("s!ax", SStr)
	ln := App("str_len", SInt, sv)
	ex.axioms = append(ex.axioms, &Term{Op: "forall", Sort: SBool, Bound: []Bound{{"s!ax", SStr}}, Pat: []*Term{ln}, Args: []*Term{Le(IntLit(0), ln)}})
	// the nil interface has no dynamic type (type identifiers start at 1): a type assertion or type switch case on
	// it fails
	ex.axioms = append(ex.axioms, Eq(App("typeof", SInt, V("iface_nil", SIfc)), IntLit(0)))
	return ex
}

func (ex *Exec) note(format string, args ...any) {
	s := fmt.Sprintf(format, args...)
	for _, n := range ex.notes {
		if n == s {
			return
		}
	}
	ex.notes = append(ex.notes, s)
}

func (ex *Exec) get(st *State, comp, sort string) *Term {
	if st.oldDepth > 0 && st.base != nil && !strings.HasPrefix(comp, "loc.") {
		// inside old(...): heap reads go to the pre-state
		if s, ok := ex.compSort[comp]; !ok || s == sort {
			ex.compSort[comp] = sort
		}
		return V("OLD."+comp, sort)
	}
	if t, ok := st.heap[comp]; ok {
		return t
	}
	if s, ok := ex.compSort[comp]; ok && s != sort {
		panic(fmt.Sprintf("component %s: sort %s vs %s", comp, s, sort))
	}
	ex.compSort[comp] = sort
	var t *Term
	if st.base != nil {
		t = st.base(comp, sort)
	} else {
		t = ex.base(comp, sort)
	}
	st.heap[comp] = t
	return t
}

// peek reads a component of the state's own heap, ignoring any old() region
// (used when merging states).
func (ex *Exec) peek(st *State, comp, sort string) *Term {
	d := st.oldDepth
	st.oldDepth = 0
	t := ex.get(st, comp, sort)
	st.oldDepth = d
	return t
}

func (ex *Exec) set(st *State, comp string, t *Term) {
	ex.compSort[comp] = t.Sort
	if ex.ghost == 0 {
		ex.written[comp] = true
		// remember which object the write goes to (used to refine frames: a
		// component written only at objects allocated by the code itself keeps
		// its value at every object that existed before)
		prev := st.heap[comp]
		ex.writeLog = append(ex.writeLog, writeRec{comp: comp, key: writtenKey(prev, t)})
	}
	st.heap[comp] = ex.ctx.Abbrev("H."+comp, t)
}

type writeRec struct {
	comp      string
	key       *Term // object written, nil if unknown
	freshOnly bool  // havoc by a callee whose frame says "fresh objects only"
}

// writtenKey recognises store(prev, k, v) and ite(c, store(prev, k, v), prev).
func writtenKey(prev, t *Term) *Term {
	if prev == nil || t == nil {
		return nil
	}
	if t.Op == "ite" && len(t.Args) == 3 {
		if t.Args[2] == prev {
			return writtenKey(prev, t.Args[1])
		}
		if t.Args[1] == prev {
			return writtenKey(prev, t.Args[2])
		}
		return nil
	}
	if t.Op == "store" && len(t.Args) == 3 && (t.Args[0] == prev || sameTerm(t.Args[0], prev)) {
		return t.Args[1]
	}
	return nil
}

// freshOnlyComps analyses the writes logged since index from: a component is
// "fresh only" if every write to it went to an object allocated after counter n0.
func (ex *Exec) freshOnlyComps(from int, n0 int) map[string]bool {
	ok := map[string]bool{}
	bad := map[string]bool{}
	for _, w := range ex.writeLog[from:] {
		if w.comp == "Alloc" || strings.HasPrefix(w.comp, "loc.") {
			continue
		}
		good := w.freshOnly
		key := w.key
		for key != nil && strings.HasPrefix(key.Op, "sub_") && len(key.Args) == 1 {
			// an embedded struct field of an object: as fresh as the object it is part of
			key = key.Args[0]
		}
		if !good && key != nil && len(key.Args) == 0 {
			if n, isFresh := ex.freshRefs[key.Op]; isFresh && n > n0 {
				good = true
			}
		}
		if good {
			ok[w.comp] = true
		} else {
			bad[w.comp] = true
		}
	}
	for c := range bad {
		delete(ok, c)
	}
	return ok
}

// preserveAllocated states that component comp (an array indexed by Ref) has
// the same value in nw as in old at every object allocated in alloc.
func (ex *Exec) preserveAllocated(st *State, alloc, old, nw *Term) {
	k, _ := arrayParts(nw.Sort)
	if k != SRef {
		return
	}
	r := Bound{Name: ex.boundName("r"), Sort: SRef}
	rv := V(r.Name, SRef)
	ex.assume(st, Forall([]Bound{r}, Implies(Select(alloc, rv), Eq(Select(nw, rv), Select(old, rv)))))
	// ... and so do the embedded struct fields (sub-objects) of those objects
	for _, sf := range ex.subFuns {
		x := Bound{Name: ex.boundName("x"), Sort: SRef}
		sx := App(sf, SRef, V(x.Name, SRef))
		ex.assume(st, &Term{Op: "forall", Sort: SBool, Bound: []Bound{x}, Pat: []*Term{sx},
			Args: []*Term{Implies(Select(alloc, V(x.Name, SRef)), Eq(Select(nw, sx), Select(old, sx)))}})
	}
}

func (ex *Exec) assume(st *State, t *Term) {
	if t.Op == "true" {
		return
	}
	ex.assumes = append(ex.assumes, Implies(st.pc, t))
}

func (ex *Exec) assumeGlobal(t *Term) {
	if t.Op == "true" {
		return
	}
	ex.assumes = append(ex.assumes, t)
}

// assert records an obligation and then assumes the goal.
func (ex *Exec) assert(st *State, kind, name string, tags []string, goal *Term, pos token.Position) {
	if ex.ghost > 0 {
		return
	}
	if ex.quiet > 0 {
		ex.assume(st, goal)
		return
	}
	if goal.Op == "true" {
		// trivially true: still counted, discharged syntactically
	}
	o := &Obligation{Name: ex.fnName + "#" + kind + ":" + name, Kind: kind, Tags: tags, Goal: goal, PC: st.pc,
		NAssume: len(ex.assumes), NLines: len(ex.ctx.lines), Pos: pos, Func: ex.fnName, Expect: "unsat"}
	o.Values = append(o.Values, ex.values...)
	o.Values = append(o.Values, explainGoal(goal, "goal", 0)...)
	ex.obls = append(ex.obls, o)
	if kind == "post" {
		// postconditions are proved independently of each other
		return
	}
	ex.assume(st, goal)
}

// assertCanary records an obligation that carves out a recorded finding: it is
// expected to fail, is never counted, and its goal is assumed afterwards.
func (ex *Exec) assertCanary(st *State, kind, name string, tags []string, goal *Term, pos token.Position) {
	if ex.ghost > 0 || ex.quiet > 0 {
		ex.assume(st, goal)
		return
	}
	n := len(ex.obls)
	ex.assert(st, kind, name, tags, goal, pos)
	if len(ex.obls) > n {
		ex.obls[len(ex.obls)-1].Canary = true
	}
}

// ---------------------------------------------------------------- frames

type Frame struct {
	ex     *Exec
	fn     *ssa.Function
	regs   map[ssa.Value]Val
	params []Val
	free   []Val
	depth  int
	id     int
	loops  []*loopInfo
	lspecs map[int]*ssa.Function
	outer  *Frame
	// results
	rets    []retPoint
	panics  []retPoint
	specArgs []Val // params (+results) for loop invariant evaluation
	pre     *State
	contract *LoadedContract
	callPos token.Pos
	iters   map[ssa.Value]*rangeIter
	dry     int
	order   []*ssa.BasicBlock
	headers map[*ssa.BasicBlock]*loopInfo
}

type retPoint struct {
	st   *State
	vals []Val
}

type loopInfo struct {
	header *ssa.BasicBlock
	blocks map[*ssa.BasicBlock]bool
	pos    token.Pos
	ord    int
	mod    map[string]bool
	modAll bool
	modDone bool
	freshOnly map[string]bool // components the body writes only at objects it allocates itself
}

func (ex *Exec) newFrame(fn *ssa.Function, params, free []Val, outer *Frame) *Frame {
	ex.frameN++
	d := 0
	if outer != nil {
		d = outer.depth + 1
	}
	return &Frame{ex: ex, fn: fn, regs: map[ssa.Value]Val{}, params: params, free: free, depth: d, id: ex.frameN, outer: outer}
}

// val returns the symbolic value of an SSA value.
func (fr *Frame) val(st *State, v ssa.Value) Val {
	ex := fr.ex
	switch x := v.(type) {
	case *ssa.Const:
		return Val{T: ex.constTerm(x)}
	case *ssa.Parameter:
		for i, p := range fr.fn.Params {
			if p == x {
				return fr.params[i]
			}
		}
		panic("unknown parameter")
	case *ssa.FreeVar:
		for i, p := range fr.fn.FreeVars {
			if p == x {
				if i < len(fr.free) {
					return fr.free[i]
				}
			}
		}
		panic("unknown freevar " + x.Name() + " in " + fr.fn.String())
	case *ssa.Function:
		return Val{Clo: &Closure{Fn: x}, T: TNull}
	case *ssa.Global:
		name := "glob." + sanitize(x.Pkg.Pkg.Name()+"."+x.Name())
		t := ex.ctx.Const(name, SRef)
		return Val{T: t, Origin: "global." + x.Name()}
	case *ssa.Builtin:
		panic("builtin as value")
	}
	if r, ok := fr.regs[v]; ok {
		return r
	}
	panic(fmt.Sprintf("%s: no value for %s = %s", fr.fn, v.Name(), v))
}

func (ex *Exec) constTerm(c *ssa.Const) *Term {
	t := c.Type()
	if c.Value == nil {
		if b, ok := t.Underlying().(*types.Basic); ok && b.Kind() == types.UntypedNil {
			return TNull
		}
		return ex.ctx.Zero(t)
	}
	switch c.Value.Kind() {
	case constant.Bool:
		return BoolLit(constant.BoolVal(c.Value))
	case constant.String:
		return ex.ctx.StrLit(constant.StringVal(c.Value))
	case constant.Int:
		if b, ok := t.Underlying().(*types.Basic); ok && b.Info()&types.IsFloat != 0 {
			return RealLit(c.Value.ExactString() + ".0")
		}
		n, _ := new(big.Int).SetString(c.Value.ExactString(), 10)
		return BigLit(n)
	case constant.Float:
		if b, ok := t.Underlying().(*types.Basic); ok && b.Info()&types.IsInteger != 0 {
			n, _ := new(big.Int).SetString(constant.ToInt(c.Value).ExactString(), 10)
			return BigLit(n)
		}
		return ratTerm(c.Value)
	}
	panic("unsupported constant " + c.String())
}

func ratTerm(v constant.Value) *Term {
	num := constant.Num(v)
	den := constant.Denom(v)
	ns := num.ExactString()
	neg := false
	if strings.HasPrefix(ns, "-") {
		neg = true
		ns = ns[1:]
	}
	s := "(/ " + ns + ".0 " + den.ExactString() + ".0)"
	if den.ExactString() == "1" {
		s = ns + ".0"
	}
	if neg {
		s = "(- " + s + ")"
	}
	return RealLit(s)
}

// ---------------------------------------------------------------- CFG helpers

func isBackEdge(from, to *ssa.BasicBlock) bool { return to.Dominates(from) }

func rpo(fn *ssa.Function) []*ssa.BasicBlock {
	seen := map[*ssa.BasicBlock]bool{}
	var post []*ssa.BasicBlock
	var dfs func(b *ssa.BasicBlock)
	dfs = func(b *ssa.BasicBlock) {
		seen[b] = true
		for _, s := range b.Succs {
			if !seen[s] && !isBackEdge(b, s) {
				dfs(s)
			}
		}
		post = append(post, b)
	}
	dfs(fn.Blocks[0])
	for i, j := 0, len(post)-1; i < j; i, j = i+1, j-1 {
		post[i], post[j] = post[j], post[i]
	}
	return post
}

func findLoops(fn *ssa.Function) []*loopInfo {
	byHeader := map[*ssa.BasicBlock]*loopInfo{}
	var out []*loopInfo
	for _, b := range fn.Blocks {
		for _, s := range b.Succs {
			if isBackEdge(b, s) {
				li := byHeader[s]
				if li == nil {
					li = &loopInfo{header: s, blocks: map[*ssa.BasicBlock]bool{s: true}, mod: map[string]bool{}}
					byHeader[s] = li
					out = append(out, li)
				}
				// natural loop: reverse reachability from b up to header
				var stack []*ssa.BasicBlock
				if !li.blocks[b] {
					li.blocks[b] = true
					stack = append(stack, b)
				}
				for len(stack) > 0 {
					x := stack[len(stack)-1]
					stack = stack[:len(stack)-1]
					for _, p := range x.Preds {
						if !li.blocks[p] {
							li.blocks[p] = true
							stack = append(stack, p)
						}
					}
				}
			}
		}
	}
	for _, li := range out {
		li.pos = token.NoPos
		for b := range li.blocks {
			for _, in := range b.Instrs {
				if p := in.Pos(); p.IsValid() && (li.pos == token.NoPos || p < li.pos) {
					li.pos = p
				}
			}
		}
	}
	sort.Slice(out, func(i, j int) bool {
		if out[i].pos != out[j].pos {
			return out[i].pos < out[j].pos
		}
		return out[i].header.Index < out[j].header.Index
	})
	for i, li := range out {
		li.ord = i + 1
	}
	return out
}

// ---------------------------------------------------------------- function execution

type unsupported struct{ msg string }

func (ex *Exec) unsupported(format string, args ...any) {
	panic(unsupported{fmt.Sprintf(format, args...)})
}

// run executes fn's body from state st. It returns the merged exit state and
// results; paths ending in panic are collected in fr.panics.
func (fr *Frame) run(st *State) (*State, []Val) {
	ex := fr.ex
	fn := fr.fn
	if len(fn.Blocks) == 0 {
		ex.unsupported("function %s has no body", fn)
	}
	fr.pre = st.clone()
	fr.loops = findLoops(fn)
	fr.headers = map[*ssa.BasicBlock]*loopInfo{}
	for _, li := range fr.loops {
		fr.headers[li.header] = li
	}
	fr.order = rpo(fn)
	fr.runRegion(fn.Blocks[0], nil, st, false)
	if len(fr.rets) == 0 {
		return nil, nil
	}
	return fr.mergeReturns()
}

// runBlocks executes the body of a loop once starting from its header.
func (fr *Frame) runBlocks(li *loopInfo, st *State) {
	fr.runRegion(li.header, li.blocks, st, true)
}

func (fr *Frame) runRegion(entry *ssa.BasicBlock, region map[*ssa.BasicBlock]bool, st *State, skipEntryLoop bool) {
	out := map[*ssa.BasicBlock]*State{}
	edgeCond := map[[2]*ssa.BasicBlock]*Term{}
	for _, b := range fr.order {
		if region != nil && !region[b] {
			continue
		}
		var in *State
		if b == entry {
			in = st
		} else {
			var preds []*ssa.BasicBlock
			for _, p := range b.Preds {
				if isBackEdge(p, b) {
					continue
				}
				if out[p] != nil {
					preds = append(preds, p)
				}
			}
			if len(preds) == 0 {
				continue // unreachable (or outside the region)
			}
			in = fr.merge(b, preds, out, edgeCond)
		}
		if li := fr.headers[b]; li != nil && !(skipEntryLoop && b == entry) {
			fr.enterLoop(li, in, b)
		}
		cur := in
		for _, instr := range b.Instrs {
			if !fr.step(cur, instr, b, edgeCond, fr.headers, out) {
				break
			}
		}
		out[b] = cur
	}
}

// merge builds the entry state of block b from its forward predecessors and
// assigns phi values.
func (fr *Frame) merge(b *ssa.BasicBlock, preds []*ssa.BasicBlock, out map[*ssa.BasicBlock]*State, edgeCond map[[2]*ssa.BasicBlock]*Term) *State {
	ex := fr.ex
	conds := make([]*Term, len(preds))
	for i, p := range preds {
		c := edgeCond[[2]*ssa.BasicBlock{p, b}]
		if c == nil {
			c = TTrue
		}
		conds[i] = pcAnd(out[p].pc, c)
	}
	st := &State{heap: map[string]*Term{}, base: out[preds[0]].base, oldDepth: out[preds[0]].oldDepth}
	if len(preds) == 1 {
		st = out[preds[0]].clone()
		st.pc = conds[0]
	} else {
		var rel []*Term
		st.pc, rel = mergeConds(conds)
		if st.pc.Op == "or" {
			st.pc = ex.ctx.Abbrev("pc", st.pc)
		}
		absConds := conds
		conds = rel
		comps := map[string]bool{}
		for _, p := range preds {
			for k := range out[p].heap {
				comps[k] = true
			}
		}
		for _, k := range sortedKeys(comps) {
			var acc *Term
			for i := len(preds) - 1; i >= 0; i-- {
				h := ex.peek(out[preds[i]], k, ex.compSort[k])
				if acc == nil {
					acc = h
				} else {
					acc = Ite(conds[i], h, acc)
				}
			}
			st.heap[k] = ex.ctx.Abbrev("H."+k, acc)
		}
		// defers: union with conditions
		seen := map[*ssa.Defer]int{}
		for i, p := range preds {
			for _, d := range out[p].defers {
				c := And(absConds[i], d.cond)
				if j, ok := seen[d.instr]; ok {
					st.defers[j].cond = Or(st.defers[j].cond, c)
				} else {
					seen[d.instr] = len(st.defers)
					st.defers = append(st.defers, deferEntry{d.instr, d.fr, c})
				}
			}
		}
	}
	// phis
	for _, instr := range b.Instrs {
		phi, ok := instr.(*ssa.Phi)
		if !ok {
			break
		}
		var acc Val
		first := true
		for i := len(preds) - 1; i >= 0; i-- {
			idx := predIndex(b, preds[i])
			v := fr.val(out[preds[i]], phi.Edges[idx])
			if first {
				acc = v
				first = false
			} else {
				acc = ex.iteVal(conds[i], v, acc)
			}
		}
		if acc.T != nil {
			acc.T = ex.ctx.Abbrev(fr.regName(phi), acc.T)
		}
		fr.regs[phi] = acc
	}
	return st
}

func predIndex(b, p *ssa.BasicBlock) int {
	for i, q := range b.Preds {
		if q == p {
			return i
		}
	}
	panic("pred not found")
}

func (fr *Frame) regName(v ssa.Value) string {
	return fmt.Sprintf("%s.%s.%d", fr.fn.Name(), v.Name(), fr.id)
}

func (ex *Exec) iteVal(c *Term, a, b Val) Val {
	if a.T != nil && b.T != nil {
		r := Val{T: Ite(c, a.T, b.T)}
		if a.Clo != nil && b.Clo != nil && a.Clo == b.Clo {
			r.Clo = a.Clo
		}
		if a.Origin == b.Origin {
			r.Origin = a.Origin
		}
		return r
	}
	if a.Tup != nil && b.Tup != nil {
		var out []Val
		for i := range a.Tup {
			out = append(out, ex.iteVal(c, a.Tup[i], b.Tup[i]))
		}
		return Val{Tup: out}
	}
	if a.L != nil && b.L != nil && a.L.Comp == b.L.Comp && len(a.L.Keys) == len(b.L.Keys) && len(a.L.Path) == len(b.L.Path) {
		l := *a.L
		l.Keys = nil
		for i := range a.L.Keys {
			l.Keys = append(l.Keys, Ite(c, a.L.Keys[i], b.L.Keys[i]))
		}
		return Val{L: &l}
	}
	if a.Clo != nil && b.Clo != nil && a.Clo.Fn == b.Clo.Fn {
		return a
	}
	ex.unsupported("cannot merge values at join")
	return Val{}
}

func (fr *Frame) mergeReturns() (*State, []Val) {
	ex := fr.ex
	rets := fr.rets
	if len(rets) == 1 {
		return rets[0].st, rets[0].vals
	}
	st := &State{heap: map[string]*Term{}, base: rets[0].st.base, oldDepth: rets[0].st.oldDepth}
	conds := make([]*Term, len(rets))
	for i, r := range rets {
		conds[i] = r.st.pc
	}
	var rel []*Term
	st.pc, rel = mergeConds(conds)
	if st.pc.Op == "or" {
		st.pc = ex.ctx.Abbrev("pc.exit", st.pc)
	}
	conds = rel
	comps := map[string]bool{}
	for _, r := range rets {
		for k := range r.st.heap {
			comps[k] = true
		}
	}
	for _, k := range sortedKeys(comps) {
		var acc *Term
		for i := len(rets) - 1; i >= 0; i-- {
			h := ex.peek(rets[i].st, k, ex.compSort[k])
			if acc == nil {
				acc = h
			} else {
				acc = Ite(conds[i], h, acc)
			}
		}
		st.heap[k] = ex.ctx.Abbrev("H."+k, acc)
	}
	var vals []Val
	for j := range rets[0].vals {
		var acc Val
		for i := len(rets) - 1; i >= 0; i-- {
			if i == len(rets)-1 {
				acc = rets[i].vals[j]
			} else {
				acc = ex.iteVal(conds[i], rets[i].vals[j], acc)
			}
		}
		if acc.T != nil {
			acc.T = ex.ctx.Abbrev(fmt.Sprintf("%s.ret%d.%d", fr.fn.Name(), j, fr.id), acc.T)
		}
		vals = append(vals, acc)
	}
	return st, vals
}
