package main

import (
	"fmt"
	"go/types"
	"os"
	"path/filepath"
	"sort"
	"strings"

	"golang.org/x/tools/go/packages"
	"golang.org/x/tools/go/ssa"
	"golang.org/x/tools/go/ssa/ssautil"
)

type LoadedContract struct {
	C        *Contract
	Pkg      *ssa.Package
	Fn       *ssa.Function // nil for trusted contracts on functions without a body in scope
	Spec     *ssa.Function
	Loops    map[int]*ssa.Function
	FullName string
	Assigns  []string
}

type LoadedLemma struct {
	L   *Lemma
	Fn  *ssa.Function
	Pkg *ssa.Package
}

type frameInfo struct {
	comps     map[string]string
	all       bool
	typeLines []string // datatype declarations the component sorts refer to
	freshOnly map[string]bool // written only at objects the function allocates itself
}

type implInfo struct {
	typ types.Type
	fn  *ssa.Function
}

type World struct {
	repo       string
	prog       *ssa.Program
	pkgs       []*packages.Package
	spkgs      map[string]*ssa.Package
	scope      map[string]bool
	contracts  map[*ssa.Function]*LoadedContract
	byName     map[string]*LoadedContract
	// contracts a package states for functions of another package (trusted summaries); they hold for calls made from
	// the stating package only, the function's own contract (in its home package) is what its body is checked against
	foreign map[string]map[*ssa.Function]*LoadedContract
	lemmas     map[string]*LoadedLemma
	relies     map[string]string
	guards     map[string]string
	specFiles  []*SpecFile
	frames     map[*ssa.Function]*frameInfo
	frameBusy  map[*ssa.Function]bool
	safetyTags []string
	implCache  map[string][]implInfo
	spawnIDs   map[string]int
	stale      []string
	cloTab     map[*Exec]map[string]*Closure
	ignoreContracts map[*ssa.Function]bool
	lockTags   []string
	relyTags   map[string][]string
	lockRelies map[string][]LockRely
	lockInvs   map[string]LockInv
	deterministicIface map[string]bool
}

const contractsFile = "zz_contracts_verif.go"

// Load type-checks the packages with the ghost overlay and builds SSA.
func Load(repo string, pkgPatterns []string, contractsMirror string) (*World, error) {
	w := &World{repo: repo, spkgs: map[string]*ssa.Package{}, scope: map[string]bool{}, contracts: map[*ssa.Function]*LoadedContract{},
		byName: map[string]*LoadedContract{}, foreign: map[string]map[*ssa.Function]*LoadedContract{}, lemmas: map[string]*LoadedLemma{}, relies: map[string]string{}, guards: map[string]string{}, lockRelies: map[string][]LockRely{}, lockInvs: map[string]LockInv{},
		frames: map[*ssa.Function]*frameInfo{}, frameBusy: map[*ssa.Function]bool{}, implCache: map[string][]implInfo{}, spawnIDs: map[string]int{},
		cloTab: map[*Exec]map[string]*Closure{}, ignoreContracts: map[*ssa.Function]bool{}, deterministicIface: map[string]bool{}}
	overlay := map[string][]byte{}
	for _, pat := range pkgPatterns {
		dir := filepath.Join(repo, strings.TrimPrefix(pat, "./"))
		path := filepath.Join(dir, contractsFile)
		if _, err := os.Stat(path); err != nil {
			// fall back to the mirror kept in /verif/contracts
			alt := filepath.Join(contractsMirror, strings.ReplaceAll(strings.TrimPrefix(pat, "./"), "/", "_")+".go")
			if _, err2 := os.Stat(alt); err2 != nil {
				continue
			}
			data, _ := os.ReadFile(alt)
			overlay[path] = data
			tmp := alt
			sf, err := ParseSpecFile(tmp)
			if err != nil {
				return nil, err
			}
			w.specFiles = append(w.specFiles, sf)
			src, err := sf.Generate()
			if err != nil {
				return nil, err
			}
			overlay[filepath.Join(dir, "zz_ghost_verif.go")] = []byte(src)
			continue
		}
		sf, err := ParseSpecFile(path)
		if err != nil {
			return nil, err
		}
		w.specFiles = append(w.specFiles, sf)
		src, err := sf.Generate()
		if err != nil {
			return nil, err
		}
		overlay[filepath.Join(dir, "zz_ghost_verif.go")] = []byte(src)
	}
	if os.Getenv("VC_DUMP_GHOST") != "" {
		for p, src := range overlay {
			if strings.HasSuffix(p, "zz_ghost_verif.go") {
				os.WriteFile(filepath.Join(os.Getenv("VC_DUMP_GHOST"), strings.ReplaceAll(strings.TrimPrefix(p, repo+"/"), "/", "_")), src, 0o644)
			}
		}
	}
	cfg := &packages.Config{Mode: packages.LoadAllSyntax, Dir: repo, BuildFlags: []string{"-tags=verif"}, Overlay: overlay}
	pkgs, err := packages.Load(cfg, pkgPatterns...)
	if err != nil {
		return nil, err
	}
	var errs []string
	for _, p := range pkgs {
		for _, e := range p.Errors {
			errs = append(errs, e.Error())
		}
	}
	if len(errs) > 0 {
		return nil, &StaleError{Msgs: errs}
	}
	w.pkgs = pkgs
	prog, spkgs := ssautil.AllPackages(pkgs, ssa.InstantiateGenerics|ssa.GlobalDebug)
	prog.Build()
	w.prog = prog
	for i, p := range pkgs {
		w.spkgs[p.PkgPath] = spkgs[i]
		w.scope[p.PkgPath] = true
	}
	for _, sf := range w.specFiles {
		for k, v := range sf.Relies {
			w.relies[k] = v
		}
		for k, v := range sf.Guards {
			w.guards[k] = v
		}
		for _, li := range sf.LockInvs {
			w.lockInvs[li.Lock] = li
		}
		for _, lr := range sf.LockRelies {
			w.lockRelies[lr.Lock] = append(w.lockRelies[lr.Lock], lr)
		}
		for _, d := range sf.Deterministic {
			w.deterministicIface[d] = true
		}
	}
	// bind contracts to functions
	for _, p := range pkgs {
		sp := w.spkgs[p.PkgPath]
		var sf *SpecFile
		for _, f := range w.specFiles {
			if filepath.Dir(f.Path) == filepath.Join(repo, strings.TrimPrefix(p.PkgPath, "github.com/hashicorp/serf")) || f.Pkg == p.Name && strings.HasSuffix(p.PkgPath, specPkgSuffix(f, contractsMirror)) {
				sf = f
			}
		}
		if sf == nil {
			continue
		}
		for _, c := range sf.Contracts {
			lc := &LoadedContract{C: c, Pkg: sp, Loops: map[int]*ssa.Function{}}
			lc.Spec = sp.Func(specFuncName(c.Key))
			if lc.Spec == nil {
				return nil, fmt.Errorf("spec function for %s not found", c.Key)
			}
			for k := 1; k < 20; k++ {
				if f := sp.Func(loopFuncName(c.Key, k)); f != nil {
					lc.Loops[k] = f
				}
			}
			for _, cl := range c.Clauses {
				if cl.Kind == "assigns" {
					for _, a := range strings.Split(cl.Expr, ",") {
						if a = strings.TrimSpace(a); a != "" {
							lc.Assigns = append(lc.Assigns, a)
						}
					}
				}
			}
			fn := w.findFunc(sp, c.Key)
			if fn == nil {
				w.stale = append(w.stale, fmt.Sprintf("contract for %s: function not found in %s", c.Key, p.PkgPath))
				continue
			}
			lc.Fn = fn
			lc.FullName = shortPkg(p.PkgPath) + "." + c.Key
			if fnPkgPath(fn) != p.PkgPath {
				lc.FullName = c.Key
				if w.scope[fnPkgPath(fn)] {
					// the function's home package is loaded too and may carry the contract its body is verified against
					if w.foreign[p.PkgPath] == nil {
						w.foreign[p.PkgPath] = map[*ssa.Function]*LoadedContract{}
					}
					w.foreign[p.PkgPath][fn] = lc
					continue
				}
			}
			w.contracts[fn] = lc
			w.byName[lc.FullName] = lc
		}
		for _, l := range sf.Lemmas {
			f := sp.Func("__lemma_" + l.Name)
			if f == nil {
				return nil, fmt.Errorf("lemma %s not found", l.Name)
			}
			w.lemmas[shortPkg(p.PkgPath)+"."+l.Name] = &LoadedLemma{L: l, Fn: f, Pkg: sp}
		}
	}
	return w, nil
}

func specPkgSuffix(f *SpecFile, mirror string) string {
	if !strings.HasPrefix(f.Path, mirror) {
		return "\x00"
	}
	base := strings.TrimSuffix(filepath.Base(f.Path), ".go")
	return strings.ReplaceAll(base, "_", "/")
}

type StaleError struct{ Msgs []string }

func (e *StaleError) Error() string { return "STALE-CONTRACT: " + strings.Join(e.Msgs, "; ") }

func shortPkg(path string) string {
	return path[strings.LastIndex(path, "/")+1:]
}

// findFunc resolves "Recv.Name", "Name" or "pkg.Recv.Name".
func (w *World) findFunc(sp *ssa.Package, key string) *ssa.Function {
	parts := strings.Split(key, ".")
	switch len(parts) {
	case 1:
		return sp.Func(parts[0])
	case 2:
		if t := sp.Type(parts[0]); t != nil {
			return w.method(t.Type(), parts[1])
		}
		// pkg.Func of an imported package
		for _, imp := range sp.Pkg.Imports() {
			if imp.Name() == parts[0] {
				if ip := w.prog.Package(imp); ip != nil {
					return ip.Func(parts[1])
				}
			}
		}
	case 3:
		for _, imp := range sp.Pkg.Imports() {
			if imp.Name() == parts[0] {
				if ip := w.prog.Package(imp); ip != nil {
					if t := ip.Type(parts[1]); t != nil {
						return w.method(t.Type(), parts[2])
					}
				}
			}
		}
	}
	return nil
}

func (w *World) method(t types.Type, name string) *ssa.Function {
	for _, tt := range []types.Type{t, types.NewPointer(t)} {
		ms := w.prog.MethodSets.MethodSet(tt)
		for i := 0; i < ms.Len(); i++ {
			if ms.At(i).Obj().Name() == name {
				if f := w.prog.MethodValue(ms.At(i)); f != nil {
					// unwrap promoted-method wrappers only if declared on t itself
					return f
				}
			}
		}
	}
	return nil
}

func (w *World) contractFor(fn *ssa.Function, caller *ssa.Function) *LoadedContract {
	if w.ignoreContracts[fn] {
		return nil
	}
	if caller != nil {
		if lc := w.foreign[fnPkgPath(caller)][fn]; lc != nil {
			return lc
		}
	}
	return w.contracts[fn]
}

func (w *World) inScope(pkgPath string) bool { return w.scope[pkgPath] }

func (w *World) spawnID(name string) int {
	if id, ok := w.spawnIDs[name]; ok {
		return id
	}
	id := len(w.spawnIDs) + 1
	w.spawnIDs[name] = id
	return id
}

// implementers lists concrete types of the verified packages implementing iface.
func (w *World) implementers(iface types.Type, m *types.Func) []implInfo {
	key := iface.String() + "." + m.Name()
	if r, ok := w.implCache[key]; ok {
		return r
	}
	it, ok := iface.Underlying().(*types.Interface)
	var out []implInfo
	if ok {
		for _, p := range w.pkgs {
			sp := w.spkgs[p.PkgPath]
			var names []string
			for n := range sp.Members {
				names = append(names, n)
			}
			sort.Strings(names)
			for _, n := range names {
				tm, ok := sp.Members[n].(*ssa.Type)
				if !ok {
					continue
				}
				if _, isI := tm.Type().Underlying().(*types.Interface); isI {
					continue
				}
				for _, tt := range []types.Type{tm.Type(), types.NewPointer(tm.Type())} {
					if types.Implements(tt, it) {
						sel := w.prog.MethodSets.MethodSet(tt).Lookup(m.Pkg(), m.Name())
						if sel == nil {
							continue
						}
						if f := w.prog.MethodValue(sel); f != nil {
							out = append(out, implInfo{tt, f})
						}
						break
					}
				}
			}
		}
	}
	w.implCache[key] = out
	return out
}

func (w *World) cloByRef(ex *Exec, v Val) {
	if v.T == nil || v.Clo == nil {
		return
	}
	tab := w.cloTab[ex]
	if tab == nil {
		tab = map[string]*Closure{}
		w.cloTab[ex] = tab
	}
	tab[v.T.String()] = v.Clo
}

func (w *World) lookupClo(ex *Exec, t *Term) *Closure {
	if tab := w.cloTab[ex]; tab != nil {
		return tab[t.String()]
	}
	return nil
}

// frameOf computes (once) the set of heap components fn may write.
func (w *World) frameOf(fn *ssa.Function, c *LoadedContract) *frameInfo {
	if f, ok := w.frames[fn]; ok {
		return f
	}
	fi := &frameInfo{comps: map[string]string{}}
	if c != nil && len(c.Assigns) > 0 {
		// explicit frame: "Comp:Sort" entries or bare component names resolved later
		for _, a := range c.Assigns {
			if a == "nothing" {
				continue
			}
			parts := strings.SplitN(a, ":", 2)
			if len(parts) == 2 {
				fi.comps[strings.TrimSpace(parts[0])] = strings.TrimSpace(parts[1])
			}
		}
		w.frames[fn] = fi
		return fi
	}
	if len(fn.Blocks) == 0 || (c != nil && c.C.Trusted) {
		w.frames[fn] = fi
		return fi
	}
	if w.frameBusy[fn] {
		fi.all = true
		return fi
	}
	w.frameBusy[fn] = true
	defer delete(w.frameBusy, fn)
	ex := NewExec(w, "frame:"+fn.String())
	ex.quiet = 1
	func() {
		defer func() {
			if r := recover(); r != nil {
				if _, ok := r.(unsupported); ok {
					fi.all = true
					return
				}
				panic(r)
			}
		}()
		st := &State{pc: TTrue, heap: map[string]*Term{}}
		fr := ex.newFrame(fn, ex.symbolicParams(st, fn), ex.symbolicFree(st, fn), nil)
		fr.contract = nil
		fr.run(st)
	}()
	for comp := range ex.written {
		if strings.HasPrefix(comp, "loc.") {
			continue
		}
		fi.comps[comp] = ex.compSort[comp]
	}
	fi.typeLines = append([]string(nil), ex.ctx.typeLines...)
	if !fi.all {
		fi.freshOnly = ex.freshOnlyComps(0, 0)
	}
	for _, n := range ex.notes {
		if strings.Contains(n, "unbounded frame") {
			fi.all = true
		}
	}
	w.frames[fn] = fi
	return fi
}
