package main

import (
	"fmt"
	"go/types"
	"strings"
)

// Ctx holds the SMT declarations and definitions of one verification unit
// (one function under contract or one lemma).
type Ctx struct {
	usesStrFirst bool
	typeLines []string // sorts and datatypes
	lines     []string // declare-fun / define-fun in creation order
	declared  map[string]string
	dtDone    map[string]bool
	strLits   map[string]*Term
	strOrder  []string
	typeIDs   map[string]int
	typeByID  []types.Type
	n         int
	noAbbrev  int // >0: abbreviations disabled (ghost evaluation with placeholders)
	axioms    []*Term
}

func NewCtx() *Ctx {
	c := &Ctx{declared: map[string]string{}, dtDone: map[string]bool{}, strLits: map[string]*Term{}, typeIDs: map[string]int{}}
	c.typeLines = append(c.typeLines,
		"(declare-sort Ref 0)",
		"(declare-sort Str 0)",
		"(declare-sort Iface 0)",
		"(declare-datatypes ((Slice 0)) (((mk_slice (s_arr Ref) (s_off Int) (s_len Int) (s_cap Int)))))",
	)
	c.declared["null"] = SRef
	c.lines = append(c.lines,
		"(declare-fun null () Ref)",
		"(declare-fun iface_nil () Iface)",
		"(declare-fun typeof (Iface) Int)",
		"(declare-fun str_len (Str) Int)",
		"(declare-fun str_concat (Str Str) Str)",
	)
	c.declared["iface_nil"] = SIfc
	c.declared["typeof"] = "fun"
	c.declared["str_len"] = "fun"
	c.declared["str_concat"] = "fun"
	return c
}

func (c *Ctx) Fresh(prefix, sort string) *Term {
	c.n++
	name := fmt.Sprintf("%s!%d", sanitize(prefix), c.n)
	return c.Const(name, sort)
}

// Const declares (once) a constant and returns it.
func (c *Ctx) Const(name, sort string) *Term {
	if s, ok := c.declared[name]; ok {
		if s != sort {
			panic(fmt.Sprintf("redeclared %s: %s vs %s", name, s, sort))
		}
		return V(name, sort)
	}
	c.declared[name] = sort
	c.lines = append(c.lines, fmt.Sprintf("(declare-fun %s () %s)", name, sort))
	return V(name, sort)
}

// Fun declares (once) an uninterpreted function.
func (c *Ctx) Fun(name string, args []string, ret string) {
	sig := "(" + strings.Join(args, " ") + ") " + ret
	if s, ok := c.declared[name]; ok {
		if s != "fun:"+sig && s != "fun" {
			panic(fmt.Sprintf("redeclared fun %s: %s vs %s", name, s, sig))
		}
		return
	}
	c.declared[name] = "fun:" + sig
	c.lines = append(c.lines, fmt.Sprintf("(declare-fun %s %s)", name, sig))
}

func (c *Ctx) UF(name string, ret string, args ...*Term) *Term {
	var as []string
	for _, a := range args {
		as = append(as, a.Sort)
	}
	c.Fun(name, as, ret)
	return App(name, ret, args...)
}

// Abbrev introduces a definition for a large term.
func (c *Ctx) Abbrev(prefix string, t *Term) *Term {
	if c.noAbbrev > 0 || t.Size() < 12 {
		return t
	}
	return c.Define(prefix, t)
}

func (c *Ctx) Define(prefix string, t *Term) *Term {
	if c.noAbbrev > 0 {
		return t
	}
	c.n++
	name := fmt.Sprintf("%s!%d", sanitize(prefix), c.n)
	c.declared[name] = t.Sort
	c.lines = append(c.lines, fmt.Sprintf("(define-fun %s () %s %s)", name, t.Sort, t.String()))
	return V(name, t.Sort)
}

func sanitize(s string) string {
	var sb strings.Builder
	for _, r := range s {
		switch {
		case r >= 'a' && r <= 'z', r >= 'A' && r <= 'Z', r >= '0' && r <= '9', r == '_', r == '.', r == '$':
			sb.WriteRune(r)
		default:
			sb.WriteRune('_')
		}
	}
	return sb.String()
}

func mangleType(t types.Type) string {
	s := types.TypeString(t, func(p *types.Package) string {
		if strings.HasPrefix(p.Path(), "internal/") || strings.Contains(p.Path(), "/internal/") {
			return p.Path() // e.g. internal/sync.Mutex is not sync.Mutex
		}
		return p.Name()
	})
	return sanitize(s)
}

// StrLit returns the constant for a string literal.
func (c *Ctx) StrLit(s string) *Term {
	if t, ok := c.strLits[s]; ok {
		return t
	}
	name := fmt.Sprintf("lit%d_%s", len(c.strLits), sanitize(truncate(s, 16)))
	t := c.Const(name, SStr)
	c.strLits[s] = t
	c.strOrder = append(c.strOrder, s)
	return t
}

func truncate(s string, n int) string {
	if len(s) > n {
		return s[:n]
	}
	return s
}

// StrAxioms yields the facts about the string literals used so far.
func (c *Ctx) StrAxioms() []*Term {
	var out []*Term
	var lits []*Term
	for _, s := range c.strOrder {
		t := c.strLits[s]
		out = append(out, Eq(App("str_len", SInt, t), IntLit(int64(len(s)))))
		if len(s) > 0 && c.usesStrFirst {
			// the first byte of a literal (only when some formatted text's first byte is spoken about)
			out = append(out, Eq(c.UF("str_first", SInt, t), IntLit(int64(s[0]))))
		}
		lits = append(lits, t)
	}
	if len(lits) > 1 {
		out = append(out, App("distinct", SBool, lits...))
	}
	return out
}

func (c *Ctx) TypeID(t types.Type) int {
	k := types.TypeString(t, nil)
	if id, ok := c.typeIDs[k]; ok {
		return id
	}
	id := len(c.typeIDs) + 1
	c.typeIDs[k] = id
	c.typeByID = append(c.typeByID, t)
	return id
}

// SortOf maps a Go type to an SMT sort, declaring datatypes on demand.
func (c *Ctx) SortOf(t types.Type) string {
	switch u := t.Underlying().(type) {
	case *types.Basic:
		switch {
		case u.Info()&types.IsBoolean != 0:
			return SBool
		case u.Info()&types.IsInteger != 0:
			return SInt
		case u.Info()&types.IsFloat != 0:
			return SReal
		case u.Info()&types.IsString != 0:
			return SStr
		case u.Kind() == types.UnsafePointer:
			return SRef
		case u.Kind() == types.UntypedNil:
			return SRef
		}
		panic("unsupported basic type " + t.String())
	case *types.Pointer, *types.Map, *types.Chan, *types.Signature:
		return SRef
	case *types.Slice:
		return SSlc
	case *types.Interface:
		return SIfc
	case *types.Array:
		return ArraySort(SInt, c.SortOf(u.Elem()))
	case *types.Struct:
		return c.structSort(t, u)
	case *types.Tuple:
		panic("tuple has no sort")
	}
	panic("unsupported type " + t.String())
}

func (c *Ctx) structSort(t types.Type, u *types.Struct) string {
	name := "S_" + mangleType(t)
	if len(name) > 80 {
		name = fmt.Sprintf("%s_h%x", name[:60], hashString(name))
	}
	if c.dtDone[name] {
		return name
	}
	c.dtDone[name] = true
	var fields []string
	for i := 0; i < u.NumFields(); i++ {
		f := u.Field(i)
		fields = append(fields, fmt.Sprintf("(%s %s)", fieldSel(name, f.Name(), i), c.SortOf(f.Type())))
	}
	c.typeLines = append(c.typeLines, fmt.Sprintf("(declare-datatypes ((%s 0)) (((mk_%s %s))))", name, name, strings.Join(fields, " ")))
	return name
}

func fieldSel(structSort, fname string, i int) string {
	if fname == "_" {
		fname = fmt.Sprintf("blank%d", i)
	}
	return structSort + "." + sanitize(fname)
}

func hashString(s string) uint32 {
	var h uint32 = 2166136261
	for i := 0; i < len(s); i++ {
		h ^= uint32(s[i])
		h *= 16777619
	}
	return h
}

// Zero returns the zero value of a Go type.
func (c *Ctx) Zero(t types.Type) *Term {
	switch u := t.Underlying().(type) {
	case *types.Basic:
		switch {
		case u.Info()&types.IsBoolean != 0:
			return TFalse
		case u.Info()&types.IsInteger != 0:
			return IntLit(0)
		case u.Info()&types.IsFloat != 0:
			return RealLit("0.0")
		case u.Info()&types.IsString != 0:
			return c.StrLit("")
		default:
			return TNull
		}
	case *types.Pointer, *types.Map, *types.Chan, *types.Signature:
		return TNull
	case *types.Slice:
		return NilSlice()
	case *types.Interface:
		return V("iface_nil", SIfc)
	case *types.Array:
		es := c.SortOf(u.Elem())
		return c.ConstArray(SInt, es, c.Zero(u.Elem()))
	case *types.Struct:
		s := c.structSort(t, u)
		var args []*Term
		for i := 0; i < u.NumFields(); i++ {
			args = append(args, c.Zero(u.Field(i).Type()))
		}
		if len(args) == 0 {
			return V("mk_"+s, s)
		}
		return App("mk_"+s, s, args...)
	}
	panic("zero: unsupported type " + t.String())
}

func NilSlice() *Term {
	return App("mk_slice", SSlc, TNull, IntLit(0), IntLit(0), IntLit(0))
}

func MkSlice(arr, off, ln, cp *Term) *Term { return App("mk_slice", SSlc, arr, off, ln, cp) }

func sliceField(s *Term, f string, sort string) *Term {
	if s.Op == "mk_slice" {
		switch f {
		case "s_arr":
			return s.Args[0]
		case "s_off":
			return s.Args[1]
		case "s_len":
			return s.Args[2]
		case "s_cap":
			return s.Args[3]
		}
	}
	return App(f, sort, s)
}
func SArr(s *Term) *Term { return sliceField(s, "s_arr", SRef) }
func SOff(s *Term) *Term { return sliceField(s, "s_off", SInt) }
func SLen(s *Term) *Term { return sliceField(s, "s_len", SInt) }
func SCap(s *Term) *Term { return sliceField(s, "s_cap", SInt) }

// StructField selects field i of a struct value term.
func (c *Ctx) StructField(v *Term, st types.Type, i int) *Term {
	u := st.Underlying().(*types.Struct)
	s := c.structSort(st, u)
	f := u.Field(i)
	if v.Op == "mk_"+s && len(v.Args) == u.NumFields() {
		return v.Args[i]
	}
	return App(fieldSel(s, f.Name(), i), c.SortOf(f.Type()), v)
}

// StructUpdate returns v with field i replaced.
func (c *Ctx) StructUpdate(v *Term, st types.Type, i int, nv *Term) *Term {
	u := st.Underlying().(*types.Struct)
	s := c.structSort(st, u)
	args := make([]*Term, u.NumFields())
	for j := 0; j < u.NumFields(); j++ {
		if j == i {
			args[j] = nv
		} else {
			args[j] = c.StructField(v, st, j)
		}
	}
	return App("mk_"+s, s, args...)
}

// intRange returns the [lo,hi] range of an integer type (64-bit platform).
func intRange(t types.Type) (lo, hi string, ok bool) {
	b, isB := t.Underlying().(*types.Basic)
	if !isB || b.Info()&types.IsInteger == 0 {
		return "", "", false
	}
	switch b.Kind() {
	case types.Int8:
		return "-128", "127", true
	case types.Int16:
		return "-32768", "32767", true
	case types.Int32:
		return "-2147483648", "2147483647", true
	case types.Int, types.Int64:
		return "-9223372036854775808", "9223372036854775807", true
	case types.Uint8:
		return "0", "255", true
	case types.Uint16:
		return "0", "65535", true
	case types.Uint32:
		return "0", "4294967295", true
	case types.Uint, types.Uint64, types.Uintptr:
		return "0", "18446744073709551615", true
	}
	return "", "", false
}

func isUnsigned(t types.Type) bool {
	b, ok := t.Underlying().(*types.Basic)
	return ok && b.Info()&types.IsUnsigned != 0
}
