package main

import (
	"fmt"
	"go/types"
)

// ---------------------------------------------------------------- memory model

func derefType(t types.Type) types.Type {
	if p, ok := t.Underlying().(*types.Pointer); ok {
		return p.Elem()
	}
	panic("not a pointer: " + t.String())
}

func isStruct(t types.Type) bool {
	_, ok := t.Underlying().(*types.Struct)
	return ok
}

func typeKey(t types.Type) string {
	// canonical name used in component names (byte and uint8, rune and int32 are the same type)
	if b, ok := t.(*types.Basic); ok && int(b.Kind()) < len(types.Typ) && types.Typ[b.Kind()] != nil {
		return types.Typ[b.Kind()].Name()
	}
	return mangleType(t)
}

func (ex *Exec) fieldComp(st types.Type, i int) (string, string) {
	u := st.Underlying().(*types.Struct)
	f := u.Field(i)
	return "F_" + typeKey(st) + "." + sanitize(f.Name()), ArraySort(SRef, ex.ctx.SortOf(f.Type()))
}

func fieldOrigin(st types.Type, i int) string {
	u := st.Underlying().(*types.Struct)
	name := types.TypeString(st, func(*types.Package) string { return "" })
	return name + "." + u.Field(i).Name()
}

func (ex *Exec) subRef(base *Term, st types.Type, i int, s *State) *Term {
	u := st.Underlying().(*types.Struct)
	f := u.Field(i)
	name := "sub_" + typeKey(st) + "." + sanitize(f.Name())
	if _, done := ex.ctx.declared[name]; !done {
		ex.ctx.Fun(name, []string{SRef}, SRef)
		ex.ctx.Fun("parent_"+name, []string{SRef}, SRef)
		// sub-objects are injective in their parent and never nil
		r := V("r!sub", SRef)
		sr := App(name, SRef, r)
		ax := &Term{Op: "forall", Sort: SBool, Bound: []Bound{{"r!sub", SRef}}, Pat: []*Term{sr},
			Args: []*Term{And(Eq(App("parent_"+name, SRef, sr), r), Neq(sr, TNull), Not(App("is_root", SBool, sr)))}}
		ex.ctx.Fun("is_root", []string{SRef}, SBool)
		ex.subFuns = append(ex.subFuns, name)
		ex.axioms = append(ex.axioms, ax)
	}
	t := App(name, SRef, base)
	if ex.ghost == 0 {
		ex.assumeGlobal(Eq(App("parent_"+name, SRef, t), base))
		ex.assumeGlobal(Neq(t, TNull))
		// a sub-object is part of its parent: allocation never returns it
		ex.assumeGlobal(Not(App("is_root", SBool, t)))
	}
	return t
}

func (ex *Exec) elemsComp(elem types.Type) (string, string) {
	return "Elems_" + typeKey(elem), ArraySort(SRef, ArraySort(SInt, ex.ctx.SortOf(elem)))
}

func (ex *Exec) cellComp(t types.Type) (string, string) {
	return "Cell_" + typeKey(t), ArraySort(SRef, ex.ctx.SortOf(t))
}

func (ex *Exec) mapComps(mt types.Type) (dom, val, ln string, ks, vs string) {
	m := mt.Underlying().(*types.Map)
	k := typeKey(mt)
	ks = ex.ctx.SortOf(m.Key())
	vs = ex.ctx.SortOf(m.Elem())
	return "MapDom_" + k, "MapVal_" + k, "MapLen_" + k, ks, vs
}

// locFromPtr turns a pointer value into a location of its pointee.
func (ex *Exec) locFromPtr(p Val, ptrType types.Type) *Loc {
	if p.L != nil {
		return p.L
	}
	if p.T == nil {
		ex.unsupported("pointer value without term")
	}
	elem := derefType(ptrType)
	if isStruct(elem) {
		// whole-object location: handled by loadStruct/storeStruct
		return &Loc{Comp: "", Keys: []*Term{p.T}, Elem: elem, Origin: p.Origin}
	}
	if a, ok := elem.Underlying().(*types.Array); ok {
		c, s := ex.elemsComp(a.Elem())
		return &Loc{Comp: c, CompSort: s, Keys: []*Term{p.T}, Elem: elem, Origin: p.Origin}
	}
	c, s := ex.cellComp(elem)
	return &Loc{Comp: c, CompSort: s, Keys: []*Term{p.T}, Elem: elem, Origin: p.Origin}
}

func (ex *Exec) load(st *State, l *Loc) *Term {
	if l.Comp == "" {
		return ex.loadStruct(st, l.Keys[0], l.Elem)
	}
	t := ex.get(st, l.Comp, l.CompSort)
	if l.SlIdx != nil && len(l.Keys) == 2 {
		t = ex.slAt(Select(t, l.Keys[0]), l.SlOff, l.SlIdx)
	} else {
		for _, k := range l.Keys {
			t = Select(t, k)
		}
	}
	for _, p := range l.Path {
		if p.At != nil {
			t = Select(t, p.At)
		} else {
			t = ex.ctx.StructField(t, p.St, p.Idx)
		}
	}
	return t
}

func (ex *Exec) store(st *State, l *Loc, v *Term) {
	if l.Comp == "" {
		ex.storeStruct(st, l.Keys[0], l.Elem, v)
		return
	}
	root := ex.get(st, l.Comp, l.CompSort)
	if l.SlIdx != nil && len(l.Keys) == 2 && len(l.Path) == 0 {
		// slice element: keep the update in index-relative form (see slAt)
		content := Select(root, l.Keys[0])
		ex.set(st, l.Comp, Store(root, l.Keys[0], ex.slUpd(content, l.SlOff, l.SlIdx, v)))
		return
	}
	ex.set(st, l.Comp, ex.updateAt(root, l.Keys, l.Path, v))
}

func (ex *Exec) updateAt(cur *Term, keys []*Term, path []pathSel, v *Term) *Term {
	if len(keys) > 0 {
		inner := ex.updateAt(Select(cur, keys[0]), keys[1:], path, v)
		return Store(cur, keys[0], inner)
	}
	if len(path) > 0 {
		p := path[0]
		if p.At != nil {
			inner := ex.updateAt(Select(cur, p.At), nil, path[1:], v)
			return Store(cur, p.At, inner)
		}
		inner := ex.updateAt(ex.ctx.StructField(cur, p.St, p.Idx), nil, path[1:], v)
		return ex.ctx.StructUpdate(cur, p.St, p.Idx, inner)
	}
	if cur.Sort != v.Sort {
		panic(fmt.Sprintf("store sort mismatch %s vs %s", cur.Sort, v.Sort))
	}
	return v
}

// loadStruct builds the struct value of the object at ref.
func (ex *Exec) loadStruct(st *State, ref *Term, t types.Type) *Term {
	u := t.Underlying().(*types.Struct)
	s := ex.ctx.SortOf(t)
	var args []*Term
	for i := 0; i < u.NumFields(); i++ {
		ft := u.Field(i).Type()
		if isStruct(ft) {
			args = append(args, ex.loadStruct(st, ex.subRef(ref, t, i, st), ft))
		} else {
			c, cs := ex.fieldComp(t, i)
			args = append(args, Select(ex.get(st, c, cs), ref))
		}
	}
	if len(args) == 0 {
		return V("mk_"+s, s)
	}
	return App("mk_"+s, s, args...)
}

func (ex *Exec) storeStruct(st *State, ref *Term, t types.Type, v *Term) {
	u := t.Underlying().(*types.Struct)
	for i := 0; i < u.NumFields(); i++ {
		ft := u.Field(i).Type()
		fv := ex.ctx.StructField(v, t, i)
		if isStruct(ft) {
			ex.storeStruct(st, ex.subRef(ref, t, i, st), ft, fv)
		} else {
			c, cs := ex.fieldComp(t, i)
			ex.set(st, c, Store(ex.get(st, c, cs), ref, fv))
		}
	}
}

// fieldAddr computes &p.f.
func (ex *Exec) fieldAddr(st *State, p Val, ptrType types.Type, i int) Val {
	stt := derefType(ptrType)
	u := stt.Underlying().(*types.Struct)
	ft := u.Field(i).Type()
	org := fieldOrigin(stt, i)
	if p.L != nil && p.L.Comp != "" {
		l := *p.L
		l.Path = append(append([]pathSel(nil), p.L.Path...), pathSel{St: stt, Idx: i})
		l.Elem = ft
		l.Origin = org
		return Val{L: &l, Origin: org}
	}
	var base *Term
	if p.L != nil {
		base = p.L.Keys[0]
	} else {
		base = p.T
	}
	if base == nil {
		ex.unsupported("fieldaddr of non-pointer")
	}
	if isStruct(ft) {
		return Val{T: ex.subRef(base, stt, i, st), Origin: org}
	}
	c, cs := ex.fieldComp(stt, i)
	return Val{L: &Loc{Comp: c, CompSort: cs, Keys: []*Term{base}, Elem: ft, Origin: org}, Origin: org}
}

// typeAssume adds the facts every inhabitant of t satisfies.
func (ex *Exec) typeFacts(v *Term, t types.Type) *Term {
	if lo, hi, ok := intRange(t); ok {
		l, _ := newBig(lo)
		h, _ := newBig(hi)
		return And(Le(BigLit(l), v), Le(v, BigLit(h)))
	}
	switch t.Underlying().(type) {
	case *types.Slice:
		return And(Le(IntLit(0), SOff(v)), Le(IntLit(0), SLen(v)), Le(SLen(v), SCap(v)),
			Implies(Eq(SArr(v), TNull), Eq(SCap(v), IntLit(0))))
	}
	// strings: len >= 0 holds of every Str (global axiom + ground facts where len is taken)
	return TTrue
}
