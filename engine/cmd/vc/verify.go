package main

import (
	"regexp"
	"os"
	"crypto/sha256"
	"fmt"
	"go/types"
	"sort"
	"strings"

	"golang.org/x/tools/go/ssa"
)

type FuncResult struct {
	Name        string
	Kind        string // "contract" or "lemma"
	Obls        []*Obligation
	Notes       []string
	Trusted     []string
	Unsupported string
	Used        []string
	Inlined     []string
	Loops       int
	LoopsInv    int
	SSAHash     string
	Tags        []string
	Spawned     []string
}

func (ex *Exec) symbolicParams(st *State, fn *ssa.Function) []Val {
	var out []Val
	for _, p := range fn.Params {
		out = append(out, ex.symbolicValue(st, "p."+p.Name(), p.Type()))
	}
	return out
}

func (ex *Exec) symbolicFree(st *State, fn *ssa.Function) []Val {
	var out []Val
	for _, p := range fn.FreeVars {
		out = append(out, ex.symbolicValue(st, "fv."+p.Name(), p.Type()))
	}
	return out
}

func (ex *Exec) symbolicValue(st *State, name string, t types.Type) Val {
	v := ex.ctx.Const(sanitize(name), ex.ctx.SortOf(t))
	ex.assume(st, ex.typeFacts(v, t))
	switch t.Underlying().(type) {
	case *types.Pointer, *types.Map, *types.Chan:
		al := ex.get(st, "Alloc", ArraySort(SRef, SBool))
		ex.assume(st, Or(Eq(v, TNull), Select(al, v)))
	case *types.Slice:
		al := ex.get(st, "Alloc", ArraySort(SRef, SBool))
		ex.assume(st, Or(Eq(SArr(v), TNull), Select(al, SArr(v))))
	}
	return Val{T: v}
}

func ssaHash(fn *ssa.Function) string {
	var sb strings.Builder
	fn.WriteTo(&sb)
	for _, af := range fn.AnonFuncs {
		af.WriteTo(&sb)
	}
	// positions are printed in the header; strip the Location line
	var lines []string
	for _, l := range strings.Split(sb.String(), "\n") {
		if strings.HasPrefix(l, "# Location:") || strings.HasPrefix(strings.TrimSpace(l), ";") {
			continue
		}
		lines = append(lines, l)
	}
	h := sha256.Sum256([]byte(strings.Join(lines, "\n")))
	return fmt.Sprintf("%x", h[:8])
}

type VerifyOpts struct {
	Safety     bool
	LockChecks bool
}

// VerifyFunc generates the obligations of one function under contract.
var pureNameRe = regexp.MustCompile(`pure\s+func\s+([A-Za-z_][A-Za-z0-9_]*)\s*\(`)

func (w *World) VerifyFunc(lc *LoadedContract, opts VerifyOpts) (res *FuncResult) {
	fn := lc.Fn
	res = &FuncResult{Name: lc.FullName, Kind: "contract", SSAHash: ssaHash(fn)}
	tagset := map[string]bool{}
	for _, cl := range lc.C.Clauses {
		for _, t := range splitTags(cl.Tags) {
			tagset[t] = true
		}
	}
	res.Tags = sortedKeys(tagset)
	ex := NewExec(w, lc.FullName)
	ex.safety = opts.Safety
	ex.lockChecks = opts.LockChecks
	// forwarding ghost (thread-level log of received values, receive count stamped on every send): only built for
	// the functions whose contract speaks about it, directly or through a specification function
	stampWords := []string{"sentStamp(", "recvTotal(", "recvTotalAt("}
	for changed := true; changed; {
		changed = false
		for _, sf := range w.specFiles {
			for _, p := range sf.Pures {
				m := pureNameRe.FindStringSubmatch(p)
				if m == nil {
					continue
				}
				word := m[1] + "("
				have := false
				for _, sw := range stampWords {
					if sw == word {
						have = true
					}
				}
				if have {
					continue
				}
				body := p[strings.Index(p, "{"):]
				for _, sw := range stampWords {
					if strings.Contains(body, sw) {
						stampWords = append(stampWords, word)
						changed = true
						break
					}
				}
			}
		}
	}
	for _, cl := range lc.C.Clauses {
		for _, sw := range stampWords {
			if strings.Contains(cl.Expr, sw) {
				ex.stamps = true
			}
		}
	}
	defer func() {
		res.Notes = ex.notes
		res.Trusted = sortedKeys(ex.trusted)
		res.Used = sortedKeys(ex.usedContracts)
		res.Inlined = sortedKeys(ex.inlined)
		// the hash used to attribute regressions covers the bodies that were inlined
		if len(ex.inlinedFns) > 0 {
			var hs []string
			for f := range ex.inlinedFns {
				hs = append(hs, ssaHash(f))
			}
			sort.Strings(hs)
			res.SSAHash = res.SSAHash + "+" + fmt.Sprintf("%x", hashString(strings.Join(hs, ",")))
		}
		res.Spawned = ex.spawned
		if r := recover(); r != nil {
			if u, ok := r.(unsupported); ok {
				res.Unsupported = u.msg
				res.Obls = ex.finish(res.Tags)
				return
			}
			panic(r)
		}
	}()
	if len(fn.Blocks) == 0 {
		res.Unsupported = "function has no body"
		return
	}
	st := &State{pc: TTrue, heap: map[string]*Term{}}
	params := ex.symbolicParams(st, fn)
	free := ex.symbolicFree(st, fn)
	for i, p := range fn.Params {
		ex.values = append(ex.values, NamedTerm{p.Name(), params[i].T})
	}
	sig := fn.Signature.Results()
	var dummies []Val
	for i := 0; i < sig.Len(); i++ {
		dummies = append(dummies, Val{T: ex.ctx.Fresh("res0", ex.ctx.SortOf(sig.At(i).Type()))})
	}
	specArgs0 := append(append([]Val(nil), params...), dummies...)
	pre := st.clone()
	for _, cl := range ex.evalSpec(lc.Spec, specArgs0) {
		switch cl.Kind {
		case "fact":
			ex.assume(st, ex.inst(cl.Cond, pre, pre))
		case "requires":
			ex.assume(st, ex.inst(Implies(cl.PC, cl.Cond), pre, pre))
		case "case":
			ex.cases = append(ex.cases, caseDef{cl.Name, ex.inst(cl.Cond, pre, pre)})
		}
	}
	ex.cover(st, "requires-satisfiable")
	fr := ex.newFrame(fn, params, free, nil)
	fr.contract = lc
	fr.specArgs = specArgs0
	exit, vals := fr.run(st)
	res.Loops = len(fr.loops)
	for _, li := range fr.loops {
		if lc.Loops[li.ord] != nil {
			res.LoopsInv++
		}
	}
	for k := range lc.Loops {
		if k > len(fr.loops) {
			ex.note("STALE-CONTRACT: loop %d of %s does not exist (function has %d loops)", k, lc.FullName, len(fr.loops))
		}
	}
	if exit != nil {
		// the environment may move once more before the caller observes the state
		for _, rl := range ex.relyTouched {
			fr.envStep(exit, rl.comp, rl.cs, rl.recv, rl.vt, rl.rely)
		}
		ex.cover(exit, "exit-reachable")
		if os.Getenv("VC_DEBUG") != "" {
			for _, k := range sortedKeys(exit.heap) {
				fmt.Fprintf(os.Stderr, "EXIT %s = %s\n", k, truncate(exit.heap[k].String(), 300))
			}
			for i, r := range fr.rets {
				fmt.Fprintf(os.Stderr, "RET %d pc=%s\n", i, truncate(r.st.pc.String(), 300))
				for _, k := range sortedKeys(r.st.heap) {
					fmt.Fprintf(os.Stderr, "   %s = %s\n", k, truncate(r.st.heap[k].String(), 200))
				}
			}
		}
		// Postconditions are proved per return point (no merged heaps/results in
		// the query) when there are few of them, otherwise on the merged exit.
		type exitPoint struct {
			st   *State
			vals []Val
			sfx  string
		}
		var exits []exitPoint
		if len(fr.rets) > 1 && len(fr.rets) <= 8 {
			for k, rp := range fr.rets {
				for _, rl := range ex.relyTouched {
					fr.envStep(rp.st, rl.comp, rl.cs, rl.recv, rl.vt, rl.rely)
				}
				exits = append(exits, exitPoint{rp.st, rp.vals, fmt.Sprintf("@ret%d", k+1)})
			}
		} else {
			exits = append(exits, exitPoint{exit, vals, ""})
		}
		baseValues := ex.values
		for _, xp := range exits {
			specArgs1 := append(append([]Val(nil), params...), xp.vals...)
			ex.values = append([]NamedTerm(nil), baseValues...)
			for i, v := range xp.vals {
				if v.T != nil {
					ex.values = append(ex.values, NamedTerm{fmt.Sprintf("result%d", i), v.T})
				}
			}
			postClauses := ex.evalSpec(lc.Spec, specArgs1)
			for _, cl := range postClauses {
				if cl.Kind == "fact" {
					ex.assume(xp.st, ex.inst(cl.Cond, fr.pre, xp.st))
				}
			}
			for _, cl := range postClauses {
				if cl.Kind == "ensures" {
					ex.assert(xp.st, "post", cl.Name+xp.sfx, cl.Tags, ex.inst(Implies(cl.PC, cl.Cond), fr.pre, xp.st), w.prog.Fset.Position(fn.Pos()))
				}
				if cl.Kind == "canary" {
					// expected to fail (recorded finding); evaluated on a copy so that it is not assumed
					cs := xp.st.clone()
					ex.assertCanary(cs, "canary", cl.Name+xp.sfx, cl.Tags, ex.inst(Implies(cl.PC, cl.Cond), fr.pre, xp.st), w.prog.Fset.Position(fn.Pos()))
					ex.assumes = ex.assumes[:len(ex.assumes)-1]
				}
			}
		}
	} else {
		ex.note("function %s has no normal exit", lc.FullName)
	}
	res.Obls = ex.finish(res.Tags)
	return res
}

// VerifyLemma executes a ghost lemma procedure; its asserts are the obligations.
func (w *World) VerifyLemma(name string, ll *LoadedLemma) (res *FuncResult) {
	res = &FuncResult{Name: name, Kind: "lemma", SSAHash: ssaHash(ll.Fn), Tags: splitTags(ll.L.Tags)}
	ex := NewExec(w, name)
	defer func() {
		res.Notes = ex.notes
		res.Trusted = sortedKeys(ex.trusted)
		res.Used = sortedKeys(ex.usedContracts)
		res.Inlined = sortedKeys(ex.inlined)
		// the hash used to attribute regressions covers the bodies that were inlined
		if len(ex.inlinedFns) > 0 {
			var hs []string
			for f := range ex.inlinedFns {
				hs = append(hs, ssaHash(f))
			}
			sort.Strings(hs)
			res.SSAHash = res.SSAHash + "+" + fmt.Sprintf("%x", hashString(strings.Join(hs, ",")))
		}
		if r := recover(); r != nil {
			if u, ok := r.(unsupported); ok {
				res.Unsupported = u.msg
				res.Obls = ex.finish(res.Tags)
				return
			}
			panic(r)
		}
	}()
	st := &State{pc: TTrue, heap: map[string]*Term{}}
	params := ex.symbolicParams(st, ll.Fn)
	for i, p := range ll.Fn.Params {
		ex.values = append(ex.values, NamedTerm{p.Name(), params[i].T})
	}
	fr := ex.newFrame(ll.Fn, params, nil, nil)
	exit, _ := fr.run(st)
	if exit != nil {
		ex.cover(exit, "exit-reachable")
	}
	res.Obls = ex.finish(res.Tags)
	return res
}

// cover records a satisfiability check (guards against vacuity).
func (ex *Exec) cover(st *State, name string) {
	if ex.quiet > 0 || ex.ghost > 0 {
		return
	}
	o := &Obligation{Name: ex.fnName + "#cover:" + name, Kind: "cover", Goal: TFalse, PC: st.pc,
		NAssume: len(ex.assumes), NLines: len(ex.ctx.lines), Func: ex.fnName, Expect: "sat"}
	ex.obls = append(ex.obls, o)
}

// finish expands the canary cases and attaches default tags.
func (ex *Exec) finish(fnTags []string) []*Obligation {
	var out []*Obligation
	notAny := TTrue
	for _, c := range ex.cases {
		notAny = And(notAny, Not(c.Cond))
	}
	for _, o := range ex.obls {
		o.ex = ex
		if len(o.Tags) == 0 {
			o.Tags = fnTags
		}
		if len(ex.cases) == 0 || hasTag(o.Tags, "always") {
			// tag "always": the clause is claimed (and assumed by callers) for every input, also inside the
			// carved-out regions
			out = append(out, o)
			continue
		}
		main := *o
		main.Extra = notAny
		out = append(out, &main)
		if o.Kind == "cover" {
			continue
		}
		for _, c := range ex.cases {
			cv := *o
			cv.Extra = c.Cond
			cv.Case = c.Name
			cv.Name = o.Name + "@" + c.Name
			out = append(out, &cv)
		}
	}
	// stable unique names
	seen := map[string]int{}
	for _, o := range out {
		seen[o.Name]++
		if n := seen[o.Name]; n > 1 {
			o.Name = fmt.Sprintf("%s~%d", o.Name, n)
		}
	}
	sort.SliceStable(out, func(i, j int) bool { return false })
	return out
}
