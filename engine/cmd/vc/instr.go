package main

import (
	"fmt"
	"go/token"
	"go/types"
	"math/big"
	"os"
	"strings"

	"golang.org/x/tools/go/ssa"
)

func (fr *Frame) pos(p token.Pos) token.Position {
	if !p.IsValid() {
		return token.Position{}
	}
	return fr.ex.w.prog.Fset.Position(p)
}

func (fr *Frame) setReg(v ssa.Value, x Val) {
	if x.T != nil {
		x.T = fr.ex.ctx.Abbrev(fr.regName(v), x.T)
	}
	fr.regs[v] = x
}

// step executes one instruction. Returns false if control leaves the block.
func (fr *Frame) step(st *State, instr ssa.Instruction, b *ssa.BasicBlock, edgeCond map[[2]*ssa.BasicBlock]*Term, headers map[*ssa.BasicBlock]*loopInfo, out map[*ssa.BasicBlock]*State) bool {
	ex := fr.ex
	switch in := instr.(type) {
	case *ssa.DebugRef:
		return true
	case *ssa.Phi:
		if _, ok := fr.regs[in]; !ok {
			ex.unsupported("phi %s not assigned (irreducible control flow?)", in.Name())
		}
		return true
	case *ssa.Alloc:
		fr.setReg(in, fr.alloc(st, in))
	case *ssa.FieldAddr:
		p := fr.val(st, in.X)
		fr.derefCheck(st, p, in.Pos(), in.X)
		fr.setReg(in, ex.fieldAddr(st, p, in.X.Type(), in.Field))
	case *ssa.Field:
		x := fr.val(st, in.X)
		fr.setReg(in, Val{T: ex.ghostTyped(ex.ctx.StructField(x.T, in.X.Type(), in.Field), in.Type())})
	case *ssa.IndexAddr:
		fr.setReg(in, fr.indexAddr(st, in))
	case *ssa.Index:
		x := fr.val(st, in.X)
		i := fr.val(st, in.Index)
		switch in.X.Type().Underlying().(type) {
		case *types.Array:
			fr.setReg(in, Val{T: Select(x.T, i.T)})
		default: // string
			ln := App("str_len", SInt, x.T)
			fr.safety(st, "index", And(Le(IntLit(0), i.T), Lt(i.T, ln)), in.Pos(), in)
			fr.setReg(in, Val{T: ex.ctx.UF("str_at", SInt, x.T, i.T)})
		}
	case *ssa.Lookup:
		fr.setReg(in, fr.lookup(st, in))
	case *ssa.MapUpdate:
		fr.mapUpdate(st, in)
	case *ssa.UnOp:
		fr.setReg(in, fr.unop(st, in))
	case *ssa.BinOp:
		x := fr.val(st, in.X)
		y := fr.val(st, in.Y)
		fr.setReg(in, Val{T: fr.binop(st, in.Op, x, y, in.X.Type(), in.Y.Type(), in.Type(), in.Pos(), in)})
	case *ssa.ChangeType:
		fr.setReg(in, fr.val(st, in.X))
	case *ssa.ChangeInterface:
		fr.setReg(in, fr.val(st, in.X))
	case *ssa.Convert:
		fr.setReg(in, fr.convert(st, in))
	case *ssa.MakeInterface:
		x := fr.val(st, in.X)
		fr.setReg(in, Val{T: ex.box(st, x, in.X.Type())})
	case *ssa.TypeAssert:
		fr.setReg(in, fr.typeAssert(st, in))
	case *ssa.Extract:
		t := fr.val(st, in.Tuple)
		if t.Tup == nil {
			ex.unsupported("extract from non-tuple")
		}
		fr.regs[in] = t.Tup[in.Index]
	case *ssa.MakeMap:
		fr.setReg(in, Val{T: fr.makeMap(st, in.Type())})
	case *ssa.MakeSlice:
		ln := fr.val(st, in.Len).T
		cp := fr.val(st, in.Cap).T
		fr.safety(st, "makeslice", And(Le(IntLit(0), ln), Le(ln, cp)), in.Pos(), in)
		fr.setReg(in, Val{T: fr.makeSlice(st, in.Type().Underlying().(*types.Slice).Elem(), ln, cp)})
	case *ssa.MakeChan:
		r := fr.newRef(st, "chan")
		// a new channel is open and nothing has been sent on or received from it
		ek := typeKey(chanElem(in.Type()))
		for _, c := range []string{"ChanSentN_" + ek, "ChanRecvN_" + ek} {
			ex.set(st, c, Store(ex.get(st, c, ArraySort(SRef, SInt)), r, IntLit(0)))
		}
		ex.set(st, "ChanClosed_"+ek, Store(ex.get(st, "ChanClosed_"+ek, ArraySort(SRef, SBool)), r, TFalse))
		if sz := fr.val(st, in.Size); sz.T != nil {
			fr.safety(st, "makechan", Le(IntLit(0), sz.T), in.Pos(), in)
		}
		fr.setReg(in, Val{T: r})
	case *ssa.MakeClosure:
		var bind []Val
		for _, bv := range in.Bindings {
			bind = append(bind, fr.val(st, bv))
		}
		var t *Term
		if ex.ghost == 0 {
			t = fr.newRef(st, "closure")
		} else {
			t = TNull
		}
		fr.regs[in] = Val{Clo: &Closure{Fn: in.Fn.(*ssa.Function), Bind: bind}, T: t}
	case *ssa.Slice:
		fr.setReg(in, fr.sliceOp(st, in))
	case *ssa.Range:
		fr.regs[in] = fr.rangeInit(st, in)
	case *ssa.Next:
		fr.regs[in] = fr.next(st, in)
	case *ssa.Select:
		fr.regs[in] = fr.selectOp(st, in)
	case *ssa.Send:
		ch := fr.val(st, in.Chan)
		x := fr.val(st, in.X)
		fr.chanSend(st, ch.T, x.T, in.Chan.Type(), TTrue, in.Pos())
	case *ssa.Store:
		a := fr.val(st, in.Addr)
		v := fr.val(st, in.Val)
		fr.derefCheck(st, a, in.Pos(), in.Addr)
		fr.guardCheck(st, a, true, in.Pos())
		if v.T == nil {
			if v.L != nil {
				ex.unsupported("storing an address of a local/field into memory (%s)", fr.pos(in.Pos()))
			}
			ex.unsupported("store of non-term value")
		}
		l := ex.locFromPtr(a, in.Addr.Type())
		if v.Clo != nil {
			ex.w.cloByRef(ex, v)
		}
		ex.store(st, l, v.T)
	case *ssa.Call:
		r := fr.call(st, &in.Call, in, in.Pos())
		fr.regs[in] = r
		if r.T != nil {
			fr.setReg(in, r)
		}
	case *ssa.Go:
		fr.goStmt(st, in)
	case *ssa.Defer:
		st.defers = append(st.defers, deferEntry{in, fr, TTrue})
	case *ssa.RunDefers:
		fr.runDefers(st)
	case *ssa.If:
		c := fr.val(st, in.Cond).T
		c = ex.ctx.Abbrev("cond", c)
		edgeCond[[2]*ssa.BasicBlock{b, b.Succs[0]}] = c
		edgeCond[[2]*ssa.BasicBlock{b, b.Succs[1]}] = Not(c)
		for i, s := range b.Succs {
			if isBackEdge(b, s) {
				ec := c
				if i == 1 {
					ec = Not(c)
				}
				bs := st.clone()
				bs.pc = pcAnd(st.pc, ec)
				fr.backEdge(headers[s], bs, b)
			}
		}
		return false
	case *ssa.Jump:
		s := b.Succs[0]
		if isBackEdge(b, s) {
			fr.backEdge(headers[s], st.clone(), b)
		}
		return false
	case *ssa.Return:
		var vals []Val
		for _, r := range in.Results {
			vals = append(vals, fr.val(st, r))
		}
		fr.rets = append(fr.rets, retPoint{st.clone(), vals})
		return false
	case *ssa.Panic:
		fr.panics = append(fr.panics, retPoint{st.clone(), []Val{fr.val(st, in.X)}})
		if ex.ghost == 0 {
			fr.panicReached(st, in)
		}
		return false
	default:
		ex.unsupported("instruction %T (%s) at %s", instr, instr, fr.pos(instr.Pos()))
	}
	return true
}

// ---------------------------------------------------------------- safety

func (fr *Frame) safety(st *State, kind string, cond *Term, pos token.Pos, instr ssa.Instruction) {
	ex := fr.ex
	if ex.ghost > 0 {
		return
	}
	if ex.safety {
		name := kind + "@" + fr.exprText(instr, pos)
		ex.assert(st, "safety."+kind, name, ex.w.safetyTags, cond, fr.pos(pos))
	} else {
		ex.assume(st, cond)
	}
}

// exprText names the program point of a safety obligation by the text of its source line rather than by
// line number or SSA register, so that the name survives edits elsewhere in the file.
func (fr *Frame) exprText(instr ssa.Instruction, pos token.Pos) string {
	p := fr.pos(pos)
	fn := fr.fn.Name()
	if t := srcLine(p); t != "" {
		return fmt.Sprintf("%s:%s", fn, t)
	}
	s := ""
	if v, ok := instr.(ssa.Value); ok {
		s = v.String()
	} else if instr != nil {
		s = instr.String()
	}
	if len(s) > 60 {
		s = s[:60]
	}
	return fmt.Sprintf("%s:%s:L%d", fn, s, p.Line)
}

var srcCache = map[string][]string{}

func srcLine(p token.Position) string {
	if p.Filename == "" || p.Line <= 0 {
		return ""
	}
	lines, ok := srcCache[p.Filename]
	if !ok {
		if b, err := os.ReadFile(p.Filename); err == nil {
			lines = strings.Split(string(b), "\n")
		}
		srcCache[p.Filename] = lines
	}
	if p.Line > len(lines) {
		return ""
	}
	t := strings.Join(strings.Fields(lines[p.Line-1]), " ")
	if i := strings.Index(t, "//"); i > 0 {
		t = strings.TrimSpace(t[:i])
	}
	if len(t) > 70 {
		t = t[:70]
	}
	return t
}

func (fr *Frame) panicReached(st *State, in *ssa.Panic) {
	ex := fr.ex
	if ex.safety {
		ex.assert(st, "safety.panic", "panic@"+fr.exprText(in, in.Pos()), ex.w.safetyTags, TFalse, fr.pos(in.Pos()))
	}
}

func (fr *Frame) derefCheck(st *State, p Val, pos token.Pos, x ssa.Value) {
	if p.L != nil || p.T == nil {
		return
	}
	if p.T.Op == "null" {
		fr.safety(st, "nil", TFalse, pos, nil)
		return
	}
	if p.Origin != "" && (len(p.T.Args) == 1 && len(p.T.Op) > 4 && p.T.Op[:4] == "sub_") {
		return // sub-object of a non-nil object
	}
	if _, ok := x.(*ssa.Alloc); ok {
		return
	}
	if _, ok := x.(*ssa.Global); ok {
		return
	}
	var instr ssa.Instruction
	if i, ok := x.(ssa.Instruction); ok {
		instr = i
	}
	fr.safetyNamed(st, "nil", Neq(p.T, TNull), pos, "deref "+x.Name()+":"+shortVal(x), instr)
}

func shortVal(x ssa.Value) string {
	s := x.String()
	if len(s) > 50 {
		s = s[:50]
	}
	return s
}

func (fr *Frame) safetyNamed(st *State, kind string, cond *Term, pos token.Pos, what string, instr ssa.Instruction) {
	ex := fr.ex
	if ex.ghost > 0 {
		return
	}
	if ex.safety {
		p := fr.pos(pos)
		at := srcLine(p)
		if at == "" {
			at = fmt.Sprintf("L%d", p.Line)
		}
		ex.assert(st, "safety."+kind, fmt.Sprintf("%s@%s:%s:%s", kind, fr.fn.Name(), what, at), ex.w.safetyTags, cond, p)
	} else {
		ex.assume(st, cond)
	}
}

// ---------------------------------------------------------------- allocation

func (fr *Frame) newRef(st *State, prefix string) *Term {
	ex := fr.ex
	r := ex.ctx.Fresh(prefix, SRef)
	if ex.freshRefs == nil {
		ex.freshRefs = map[string]int{}
	}
	ex.freshRefs[r.Op] = ex.ctx.n
	al := ex.get(st, "Alloc", ArraySort(SRef, SBool))
	ex.assume(st, And(Neq(r, TNull), Not(Select(al, r))))
	ex.ctx.Fun("is_root", []string{SRef}, SBool)
	ex.assume(st, App("is_root", SBool, r))
	ex.set(st, "Alloc", Store(al, r, TTrue))
	return r
}

func allocIsLocalOnly(a *ssa.Alloc) bool {
	if a.Heap {
		return false
	}
	return true
}

func (fr *Frame) alloc(st *State, in *ssa.Alloc) Val {
	ex := fr.ex
	t := derefType(in.Type())
	if ex.ghost > 0 || allocIsLocalOnly(in) {
		// local variable: a key-less location holding the whole value
		ex.n2++
		comp := fmt.Sprintf("loc.%s.%s.%d.%d", sanitize(fr.fn.Name()), sanitize(in.Comment), fr.id, ex.n2)
		sort := ex.ctx.SortOf(t)
		ex.compSort[comp] = sort
		st.heap[comp] = ex.ctx.Zero(t)
		if ex.ghost == 0 {
			ex.written[comp] = true
		}
		return Val{L: &Loc{Comp: comp, CompSort: sort, Elem: t}}
	}
	r := fr.newRef(st, "new."+in.Comment)
	fr.initObject(st, r, t)
	return Val{T: r}
}

func (fr *Frame) initObject(st *State, r *Term, t types.Type) {
	ex := fr.ex
	switch u := t.Underlying().(type) {
	case *types.Struct:
		ex.storeStruct(st, r, t, ex.ctx.Zero(t))
	case *types.Array:
		c, cs := ex.elemsComp(u.Elem())
		es := ex.ctx.SortOf(u.Elem())
		z := ex.ctx.ConstArray(SInt, es, ex.ctx.Zero(u.Elem()))
		ex.set(st, c, Store(ex.get(st, c, cs), r, z))
	default:
		c, cs := ex.cellComp(t)
		ex.set(st, c, Store(ex.get(st, c, cs), r, ex.ctx.Zero(t)))
	}
}

// ---------------------------------------------------------------- loads, unops

func (fr *Frame) unop(st *State, in *ssa.UnOp) Val {
	ex := fr.ex
	x := fr.val(st, in.X)
	switch in.Op {
	case token.MUL: // load
		fr.derefCheck(st, x, in.Pos(), in.X)
		fr.guardCheck(st, x, false, in.Pos())
		l := ex.locFromPtr(x, in.X.Type())
		v := ex.load(st, l)
		v = ex.ghostTyped(v, in.Type())
		r := Val{T: v}
		fr.loadFacts(st, v, in.Type())
		if _, ok := in.Type().Underlying().(*types.Signature); ok {
			r.Clo = ex.w.lookupClo(ex, v)
		}
		return r
	case token.NOT:
		return Val{T: Not(x.T)}
	case token.SUB:
		if x.T.Sort == SReal {
			return Val{T: App("-", SReal, x.T)}
		}
		return Val{T: ex.wrap(Sub(IntLit(0), x.T), in.Type())}
	case token.XOR:
		if lo, hi, ok := intRange(in.Type()); ok {
			if isUnsigned(in.Type()) {
				h, _ := newBig(hi)
				return Val{T: Sub(BigLit(h), x.T)}
			}
			_ = lo
			return Val{T: Sub(IntLit(-1), x.T)}
		}
	case token.ARROW:
		return fr.chanRecv(st, x.T, in.X.Type(), in.CommaOk, in.Pos())
	}
	ex.unsupported("unop %s", in.Op)
	return Val{}
}

func (fr *Frame) loadFacts(st *State, v *Term, t types.Type) {
	ex := fr.ex
	if ex.ghost > 0 {
		return
	}
	if isUnsigned(t) {
		ex.assume(st, ex.typeFacts(v, t))
		return
	}
	switch t.Underlying().(type) {
	case *types.Slice:
		ex.assume(st, ex.typeFacts(v, t))
		al := ex.get(st, "Alloc", ArraySort(SRef, SBool))
		ex.assume(st, Or(Eq(SArr(v), TNull), Select(al, SArr(v))))
	case *types.Pointer, *types.Map, *types.Chan:
		al := ex.get(st, "Alloc", ArraySort(SRef, SBool))
		ex.assume(st, Or(Eq(v, TNull), Select(al, v)))
	}
}

// ---------------------------------------------------------------- arithmetic

func pow2(k int) *big.Int { return new(big.Int).Lsh(big.NewInt(1), uint(k)) }

func typeBits(t types.Type) int {
	b, ok := t.Underlying().(*types.Basic)
	if !ok {
		return 0
	}
	switch b.Kind() {
	case types.Int8, types.Uint8:
		return 8
	case types.Int16, types.Uint16:
		return 16
	case types.Int32, types.Uint32:
		return 32
	case types.Int, types.Int64, types.Uint, types.Uint64, types.Uintptr:
		return 64
	}
	return 0
}

// wrap applies modular reduction for unsigned result types.
func (ex *Exec) wrap(t *Term, ty types.Type) *Term {
	if isUnsigned(ty) {
		if n, ok := t.LitVal(); ok {
			m := pow2(typeBits(ty))
			r := new(big.Int).Mod(n, m)
			return BigLit(r)
		}
		return App("mod", SInt, t, BigLit(pow2(typeBits(ty))))
	}
	return t
}

func truncDiv(a, b *Term) *Term {
	// Go division truncates toward zero
	return Ite(Ge(a, IntLit(0)),
		Ite(Gt(b, IntLit(0)), App("div", SInt, a, b), App("-", SInt, App("div", SInt, a, App("-", SInt, b)))),
		Ite(Gt(b, IntLit(0)), App("-", SInt, App("div", SInt, App("-", SInt, a), b)), App("div", SInt, App("-", SInt, a), App("-", SInt, b))))
}

func (fr *Frame) binop(st *State, op token.Token, x, y Val, xt, yt, rt types.Type, pos token.Pos, instr ssa.Instruction) *Term {
	ex := fr.ex
	a, b := x.T, y.T
	if a == nil || b == nil {
		// comparisons of locations with nil
		if op == token.EQL || op == token.NEQ {
			if (x.L != nil && b != nil && b.Op == "null") || (y.L != nil && a != nil && a.Op == "null") {
				return BoolLit(op == token.NEQ)
			}
		}
		ex.unsupported("binop on non-term values at %s", fr.pos(pos))
	}
	switch op {
	case token.EQL:
		return ex.eqVal(a, b, xt)
	case token.NEQ:
		return Not(ex.eqVal(a, b, xt))
	}
	if a.Sort == SBool {
		switch op {
		case token.AND, token.LAND:
			return And(a, b)
		case token.OR, token.LOR:
			return Or(a, b)
		}
	}
	if a.Sort == SStr {
		switch op {
		case token.ADD:
			r := App("str_concat", SStr, a, b)
			if ex.ghost == 0 {
				ex.assumeGlobal(Eq(App("str_len", SInt, r), Add(App("str_len", SInt, a), App("str_len", SInt, b))))
			}
			return r
		case token.LSS:
			return ex.ctx.UF("str_lt", SBool, a, b)
		case token.GTR:
			return ex.ctx.UF("str_lt", SBool, b, a)
		case token.LEQ:
			return Not(ex.ctx.UF("str_lt", SBool, b, a))
		case token.GEQ:
			return Not(ex.ctx.UF("str_lt", SBool, a, b))
		}
	}
	if a.Sort == SReal {
		switch op {
		case token.ADD:
			return App("+", SReal, a, b)
		case token.SUB:
			return App("-", SReal, a, b)
		case token.MUL:
			return App("*", SReal, a, b)
		case token.QUO:
			return App("/", SReal, a, b)
		case token.LSS:
			return App("<", SBool, a, b)
		case token.LEQ:
			return App("<=", SBool, a, b)
		case token.GTR:
			return App(">", SBool, a, b)
		case token.GEQ:
			return App(">=", SBool, a, b)
		}
	}
	if a.Sort == SInt {
		switch op {
		case token.ADD:
			return ex.wrap(Add(a, b), rt)
		case token.SUB:
			return ex.wrap(Sub(a, b), rt)
		case token.MUL:
			if x, ok := a.LitVal(); ok {
				if y, ok := b.LitVal(); ok {
					return ex.wrap(BigLit(new(big.Int).Mul(x, y)), rt)
				}
			}
			return ex.wrap(App("*", SInt, a, b), rt)
		case token.QUO:
			fr.safety(st, "div", Neq(b, IntLit(0)), pos, instr)
			if isUnsigned(rt) {
				return App("div", SInt, a, b)
			}
			return truncDiv(a, b)
		case token.REM:
			fr.safety(st, "div", Neq(b, IntLit(0)), pos, instr)
			if isUnsigned(rt) {
				return App("mod", SInt, a, b)
			}
			return Sub(a, App("*", SInt, b, truncDiv(a, b)))
		case token.LSS:
			return Lt(a, b)
		case token.LEQ:
			return Le(a, b)
		case token.GTR:
			return Gt(a, b)
		case token.GEQ:
			return Ge(a, b)
		case token.SHL:
			if k, ok := b.LitVal(); ok && k.IsInt64() && k.Int64() < 128 {
				return ex.wrap(App("*", SInt, a, BigLit(pow2(int(k.Int64())))), rt)
			}
			return ex.wrap(App("*", SInt, a, ex.ctx.UF("pow2", SInt, b)), rt)
		case token.SHR:
			if k, ok := b.LitVal(); ok && k.IsInt64() && k.Int64() < 128 {
				return App("div", SInt, a, BigLit(pow2(int(k.Int64()))))
			}
			return App("div", SInt, a, ex.ctx.UF("pow2", SInt, b))
		case token.AND:
			if k, ok := b.LitVal(); ok {
				return ex.andConst(a, k)
			}
			if k, ok := a.LitVal(); ok {
				return ex.andConst(b, k)
			}
			return ex.ctx.UF("bit_and", SInt, a, b)
		case token.OR:
			return ex.ctx.UF("bit_or", SInt, a, b)
		case token.XOR:
			return ex.ctx.UF("bit_xor", SInt, a, b)
		case token.AND_NOT:
			return ex.ctx.UF("bit_andnot", SInt, a, b)
		}
	}
	ex.unsupported("binop %s on %s at %s", op, a.Sort, fr.pos(pos))
	return nil
}

// andConst encodes x & k for a constant k on non-negative x.
func (ex *Exec) andConst(x *Term, k *big.Int) *Term {
	if k.Sign() == 0 {
		return IntLit(0)
	}
	// single bit
	if k.BitLen() > 0 && new(big.Int).And(k, new(big.Int).Sub(k, big.NewInt(1))).Sign() == 0 {
		bit := k
		return App("*", SInt, BigLit(bit), App("mod", SInt, App("div", SInt, x, BigLit(bit)), IntLit(2)))
	}
	// low mask 2^n-1
	k1 := new(big.Int).Add(k, big.NewInt(1))
	if new(big.Int).And(k1, k).Sign() == 0 {
		return App("mod", SInt, x, BigLit(k1))
	}
	return ex.ctx.UF("bit_and", SInt, x, BigLit(k))
}

func (ex *Exec) eqVal(a, b *Term, t types.Type) *Term {
	if a.Sort == SStr {
		// the empty string is the unique string of length 0
		e := ex.ctx.StrLit("")
		if sameTerm(a, e) && !sameTerm(b, e) {
			return Eq(App("str_len", SInt, b), IntLit(0))
		}
		if sameTerm(b, e) && !sameTerm(a, e) {
			return Eq(App("str_len", SInt, a), IntLit(0))
		}
	}
	if a.Sort == SSlc {
		// only comparison with nil is legal
		if b.Op == "mk_slice" {
			return Eq(SArr(a), TNull)
		}
		return Eq(SArr(b), TNull)
	}
	if a.Sort != b.Sort {
		if a.Op == "null" && b.Sort == SIfc {
			return Eq(V("iface_nil", SIfc), b)
		}
		if b.Op == "null" && a.Sort == SIfc {
			return Eq(a, V("iface_nil", SIfc))
		}
		if a.Op == "null" && b.Sort == SSlc {
			return Eq(SArr(b), TNull)
		}
		if b.Op == "null" && a.Sort == SSlc {
			return Eq(SArr(a), TNull)
		}
	}
	return Eq(a, b)
}

func (fr *Frame) convert(st *State, in *ssa.Convert) Val {
	ex := fr.ex
	x := fr.val(st, in.X)
	from := in.X.Type().Underlying()
	to := in.Type().Underlying()
	fb, fIsB := from.(*types.Basic)
	tb, tIsB := to.(*types.Basic)
	if fIsB && tIsB {
		switch {
		case fb.Info()&types.IsInteger != 0 && tb.Info()&types.IsInteger != 0:
			return Val{T: ex.intConv(x.T, in.X.Type(), in.Type())}
		case fb.Info()&types.IsInteger != 0 && tb.Info()&types.IsFloat != 0:
			return Val{T: App("to_real", SReal, x.T)}
		case fb.Info()&types.IsFloat != 0 && tb.Info()&types.IsFloat != 0:
			return x
		case fb.Info()&types.IsFloat != 0 && tb.Info()&types.IsInteger != 0:
			// truncation toward zero
			t := Ite(App(">=", SBool, x.T, RealLit("0.0")), App("to_int", SInt, x.T), App("-", SInt, App("to_int", SInt, App("-", SReal, x.T))))
			return Val{T: t}
		case fb.Info()&types.IsString != 0 && tb.Info()&types.IsString != 0:
			return x
		case fb.Info()&types.IsInteger != 0 && tb.Info()&types.IsString != 0:
			return Val{T: ex.ctx.UF("str_of_rune", SStr, x.T)}
		}
	}
	if fIsB && fb.Info()&types.IsString != 0 {
		if s, ok := to.(*types.Slice); ok {
			// []byte(s): fresh slice whose content abstracts to s
			ln := App("str_len", SInt, x.T)
			sl := fr.makeSliceNoInit(st, s.Elem(), ln, ln)
			if ex.ghost == 0 {
				ex.assume(st, Eq(ex.bytesToStr(st, sl, s.Elem()), x.T))
			}
			return Val{T: sl}
		}
	}
	if tIsB && tb.Info()&types.IsString != 0 {
		if s, ok := from.(*types.Slice); ok {
			r := ex.bytesToStr(st, x.T, s.Elem())
			if ex.ghost == 0 {
				ex.assumeGlobal(Eq(App("str_len", SInt, r), SLen(x.T)))
			}
			return Val{T: r}
		}
	}
	if _, ok := from.(*types.Slice); ok {
		if _, ok := to.(*types.Slice); ok {
			return x
		}
	}
	if _, ok := from.(*types.Pointer); ok {
		return x
	}
	ex.unsupported("convert %s -> %s", in.X.Type(), in.Type())
	return Val{}
}

func (ex *Exec) bytesToStr(st *State, sl *Term, elem types.Type) *Term {
	c, cs := ex.elemsComp(elem)
	content := Select(ex.get(st, c, cs), SArr(sl))
	return ex.ctx.UF("bytes_to_str", SStr, content, SOff(sl), SLen(sl))
}

func (ex *Exec) intConv(x *Term, from, to types.Type) *Term {
	flo, fhi, ok1 := intRange(from)
	tlo, thi, ok2 := intRange(to)
	if !ok1 || !ok2 {
		return x
	}
	fl, _ := newBig(flo)
	fh, _ := newBig(fhi)
	tl, _ := newBig(tlo)
	th, _ := newBig(thi)
	if fl.Cmp(tl) >= 0 && fh.Cmp(th) <= 0 {
		return x
	}
	if n, ok := x.LitVal(); ok && n.Cmp(tl) >= 0 && n.Cmp(th) <= 0 {
		return x
	}
	bits := typeBits(to)
	m := BigLit(pow2(bits))
	if isUnsigned(to) {
		return App("mod", SInt, x, m)
	}
	// signed target: wrap into [-2^(b-1), 2^(b-1))
	half := BigLit(pow2(bits - 1))
	return Sub(App("mod", SInt, Add(x, half), m), half)
}

// ---------------------------------------------------------------- interfaces

func (ex *Exec) box(st *State, x Val, t types.Type) *Term {
	if x.T == nil {
		if x.L != nil {
			// address of a local passed as interface{} (e.g. Decode(&msg)): an opaque
			// non-nil interface value; the location is remembered so that unknown
			// callees can be modelled as overwriting it
			r := ex.ctx.Fresh("boxedptr", SIfc)
			ex.assume(st, Neq(r, V("iface_nil", SIfc)))
			if ex.boxedLocs == nil {
				ex.boxedLocs = map[string]*Loc{}
			}
			ex.boxedLocs[r.Op] = x.L
			return r
		}
		ex.unsupported("boxing a non-term value")
	}
	if _, ok := t.Underlying().(*types.Interface); ok {
		return x.T
	}
	id := ex.ctx.TypeID(t)
	name := "box_" + mangleType(t)
	s := ex.ctx.SortOf(t)
	ex.ctx.Fun(name, []string{s}, SIfc)
	ex.ctx.Fun("un"+name, []string{SIfc}, s)
	r := App(name, SIfc, x.T)
	if ex.ghost == 0 {
		ex.assumeGlobal(And(Eq(App("typeof", SInt, r), IntLit(int64(id))), Eq(App("un"+name, s, r), x.T), Neq(r, V("iface_nil", SIfc))))
	} else {
		ex.ghostBoxes = append(ex.ghostBoxes, And(Eq(App("typeof", SInt, r), IntLit(int64(id))), Eq(App("un"+name, s, r), x.T), Neq(r, V("iface_nil", SIfc))))
	}
	if x.Clo != nil {
		ex.w.cloByRef(ex, x)
	}
	return r
}

func (fr *Frame) typeAssert(st *State, in *ssa.TypeAssert) Val {
	ex := fr.ex
	x := fr.val(st, in.X)
	at := in.AssertedType
	var ok, v *Term
	if _, isI := at.Underlying().(*types.Interface); isI {
		// interface-to-interface: succeeds for non-nil values implementing it
		okc := ex.ctx.Fresh("ifaceok", SBool)
		ok = And(Neq(x.T, V("iface_nil", SIfc)), okc)
		v = x.T
		if !in.CommaOk {
			fr.safetyNamed(st, "assert", ok, in.Pos(), "typeassert", in)
			return Val{T: v}
		}
		return Val{Tup: []Val{{T: Ite(ok, v, V("iface_nil", SIfc))}, {T: ok}}}
	}
	id := ex.ctx.TypeID(at)
	name := "box_" + mangleType(at)
	s := ex.ctx.SortOf(at)
	ex.ctx.Fun(name, []string{s}, SIfc)
	ex.ctx.Fun("un"+name, []string{SIfc}, s)
	ok = Eq(App("typeof", SInt, x.T), IntLit(int64(id)))
	v = App("un"+name, s, x.T)
	if ex.ghost == 0 {
		// canonical representation of a value of dynamic type T
		ex.assume(st, Implies(ok, Eq(App(name, SIfc, v), x.T)))
	}
	if !ex.boxAxioms[name] {
		// an interface value of dynamic type T is the box of the T value it holds (quantified form, for specifications
		// that compare interface values through the values they hold)
		if ex.boxAxioms == nil {
			ex.boxAxioms = map[string]bool{}
		}
		ex.boxAxioms[name] = true
		xi := V("i!box", SIfc)
		ub := App("un"+name, s, xi)
		ex.axioms = append(ex.axioms, &Term{Op: "forall", Sort: SBool, Bound: []Bound{{"i!box", SIfc}}, Pat: []*Term{ub},
			Args: []*Term{Implies(Eq(App("typeof", SInt, xi), IntLit(int64(id))), Eq(App(name, SIfc, ub), xi))}})
	}
	if !in.CommaOk {
		fr.safetyNamed(st, "assert", ok, in.Pos(), "typeassert", in)
		fr.loadFacts(st, v, at)
		return Val{T: v}
	}
	return Val{Tup: []Val{{T: Ite(ok, v, ex.ctx.Zero(at))}, {T: ok}}}
}
