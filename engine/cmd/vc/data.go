package main

import (
	"go/token"
	"go/types"

	"golang.org/x/tools/go/ssa"
)

// ---------------------------------------------------------------- slices

func (fr *Frame) indexAddr(st *State, in *ssa.IndexAddr) Val {
	ex := fr.ex
	x := fr.val(st, in.X)
	i := fr.val(st, in.Index).T
	switch u := in.X.Type().Underlying().(type) {
	case *types.Slice:
		s := x.T
		fr.safety(st, "index", And(Le(IntLit(0), i), Lt(i, SLen(s))), in.Pos(), in)
		c, cs := ex.elemsComp(u.Elem())
		return Val{L: &Loc{Comp: c, CompSort: cs, Keys: []*Term{SArr(s), Add(SOff(s), i)}, Elem: u.Elem(), SlOff: SOff(s), SlIdx: i}}
	case *types.Pointer:
		arr := u.Elem().Underlying().(*types.Array)
		fr.safety(st, "index", And(Le(IntLit(0), i), Lt(i, IntLit(arr.Len()))), in.Pos(), in)
		if x.L != nil {
			l := *x.L
			l.Path = append(append([]pathSel(nil), x.L.Path...), pathSel{At: i})
			l.Elem = arr.Elem()
			return Val{L: &l}
		}
		c, cs := ex.elemsComp(arr.Elem())
		return Val{L: &Loc{Comp: c, CompSort: cs, Keys: []*Term{x.T, i}, Elem: arr.Elem()}}
	}
	ex.unsupported("indexaddr on %s", in.X.Type())
	return Val{}
}

func (fr *Frame) makeSliceNoInit(st *State, elem types.Type, ln, cp *Term) *Term {
	r := fr.newRef(st, "arr")
	return MkSlice(r, IntLit(0), ln, cp)
}

func (fr *Frame) makeSlice(st *State, elem types.Type, ln, cp *Term) *Term {
	ex := fr.ex
	r := fr.newRef(st, "arr")
	c, cs := ex.elemsComp(elem)
	es := ex.ctx.SortOf(elem)
	z := ex.ctx.ConstArray(SInt, es, ex.ctx.Zero(elem))
	ex.set(st, c, Store(ex.get(st, c, cs), r, z))
	return MkSlice(r, IntLit(0), ln, cp)
}

func (fr *Frame) sliceOp(st *State, in *ssa.Slice) Val {
	ex := fr.ex
	x := fr.val(st, in.X)
	var lo, hi, mx *Term
	if in.Low != nil {
		lo = fr.val(st, in.Low).T
	} else {
		lo = IntLit(0)
	}
	if in.High != nil {
		hi = fr.val(st, in.High).T
	}
	if in.Max != nil {
		mx = fr.val(st, in.Max).T
	}
	switch u := in.X.Type().Underlying().(type) {
	case *types.Slice:
		s := x.T
		if hi == nil {
			hi = SLen(s)
		}
		capEnd := SCap(s)
		if mx != nil {
			fr.safety(st, "slice", And(Le(hi, mx), Le(mx, SCap(s))), in.Pos(), in)
			capEnd = mx
		}
		fr.safety(st, "slice", And(Le(IntLit(0), lo), Le(lo, hi), Le(hi, SCap(s))), in.Pos(), in)
		// slicing a nil slice yields nil
		return Val{T: MkSlice(SArr(s), Add(SOff(s), lo), Sub(hi, lo), Sub(capEnd, lo))}
	case *types.Basic: // string
		ln := App("str_len", SInt, x.T)
		if hi == nil {
			hi = ln
		}
		fr.safety(st, "slice", And(Le(IntLit(0), lo), Le(lo, hi), Le(hi, ln)), in.Pos(), in)
		r := ex.ctx.UF("str_sub", SStr, x.T, lo, hi)
		if ex.ghost == 0 {
			ex.assume(st, Eq(App("str_len", SInt, r), Sub(hi, lo)))
		}
		return Val{T: r}
	case *types.Pointer: // pointer to array
		arr := u.Elem().Underlying().(*types.Array)
		n := IntLit(arr.Len())
		if hi == nil {
			hi = n
		}
		if x.L != nil {
			if al, ok := in.X.(*ssa.Alloc); ok && ex.ghost > 0 && al.Comment == "varargs" {
				// the operand list of a variadic call inside a specification: the callee's model reads the operands
				// from the instruction (variadicBasicOperands), the slice value itself is never inspected
				return Val{T: ex.ctx.Fresh("ghostargs", SSlc)}
			}
			ex.unsupported("slicing a local array")
		}
		fr.safety(st, "slice", And(Le(IntLit(0), lo), Le(lo, hi), Le(hi, n)), in.Pos(), in)
		return Val{T: MkSlice(x.T, lo, Sub(hi, lo), Sub(n, lo))}
	}
	ex.unsupported("slice of %s", in.X.Type())
	return Val{}
}

// appendOp models append(s, t...).
func (fr *Frame) appendOp(st *State, s, t *Term, elem types.Type, tIsString bool) *Term {
	ex := fr.ex
	c, cs := ex.elemsComp(elem)
	es := ex.ctx.SortOf(elem)
	var n *Term
	if tIsString {
		n = App("str_len", SInt, t)
	} else {
		n = SLen(t)
	}
	if lit, ok := n.LitVal(); ok && lit.Sign() == 0 {
		return s
	}
	newLen := Add(SLen(s), n)
	fits := Le(newLen, SCap(s))
	heap := ex.get(st, c, cs)
	// in-place: copy t's elements to s.arr[off+len ...]
	dst := SArr(s)
	fresh := ex.ctx.Fresh("arr", SRef)
	al := ex.get(st, "Alloc", ArraySort(SRef, SBool))
	ex.assume(st, And(Neq(fresh, TNull), Not(Select(al, fresh))))
	ex.set(st, "Alloc", Store(al, fresh, TTrue))
	newCap := ex.ctx.Fresh("cap", SInt)
	ex.assume(st, Ge(newCap, newLen))
	arr := Ite(fits, dst, fresh)
	off := Ite(fits, SOff(s), IntLit(0))
	cp := Ite(fits, SCap(s), newCap)
	// contents
	oldContent := Select(heap, dst)
	var content *Term
	if lit, ok := n.LitVal(); ok && lit.IsInt64() && lit.Int64() <= 4 && !tIsString {
		// small constant count: explicit stores
		base := Ite(fits, oldContent, ex.shiftCopy(oldContent, SOff(s), SLen(s), es))
		content = base
		tc := Select(heap, SArr(t))
		var elems []*Term
		for i := int64(0); i < lit.Int64(); i++ {
			e := ex.slAt(tc, SOff(t), IntLit(i))
			elems = append(elems, e)
			content = ex.slUpd(content, off, Add(SLen(s), IntLit(i)), e)
		}
		// ground read-backs of the appended elements: they put the terms
		// sl_at(content', off, len+i) into the solver's term bank, which is what an
		// existential "the element is now in the slice" needs as witness
		for i, e := range elems {
			ex.assume(st, Eq(ex.slAt(content, off, Add(SLen(s), IntLit(int64(i)))), e))
		}
	} else {
		// general case: fresh content constrained pointwise
		fc := ex.ctx.Fresh("content", ArraySort(SInt, es))
		j := Bound{Name: ex.boundName("j"), Sort: SInt}
		jv := V(j.Name, SInt)
		// stated over the index-relative reads sl_at(content, off, i) that specifications and loads use, with the
		// bound variable as the index itself (no arithmetic inside the trigger term)
		pre := Implies(And(Le(IntLit(0), jv), Lt(jv, SLen(s))), Eq(ex.slAt(fc, off, jv), ex.slAt(oldContent, SOff(s), jv)))
		var post *Term
		if tIsString {
			post = TTrue
		} else {
			tc := Select(heap, SArr(t))
			post = Implies(And(Le(SLen(s), jv), Lt(jv, newLen)), Eq(ex.slAt(fc, off, jv), ex.slAt(tc, SOff(t), Sub(jv, SLen(s)))))
		}
		// in place: everything outside the appended window is unchanged
		keep := Implies(And(fits, Or(Lt(jv, Add(off, SLen(s))), Ge(jv, Add(off, newLen)))), Eq(Select(fc, jv), Select(oldContent, jv)))
		ex.assume(st, Forall([]Bound{j}, And(pre, post, keep)))
		content = fc
	}
	ex.set(st, c, Store(heap, arr, content))
	return MkSlice(arr, off, newLen, cp)
}

// shiftCopy returns an array whose [0,len) equals src[off, off+len).
func (ex *Exec) shiftCopy(src, off, ln *Term, es string) *Term {
	if o, ok := off.LitVal(); ok && o.Sign() == 0 {
		return src
	}
	fc := ex.ctx.Fresh("copy", ArraySort(SInt, es))
	j := Bound{Name: ex.boundName("j"), Sort: SInt}
	jv := V(j.Name, SInt)
	ex.assumeGlobal(Forall([]Bound{j}, Implies(And(Le(IntLit(0), jv), Lt(jv, ln)), Eq(ex.slAt(fc, IntLit(0), jv), ex.slAt(src, off, jv)))))
	return fc
}

func (ex *Exec) boundName(p string) string {
	ex.boundN++
	return p + "!b" + itoa(ex.boundN)
}

func itoa(n int) string {
	if n == 0 {
		return "0"
	}
	s := ""
	for n > 0 {
		s = string(rune('0'+n%10)) + s
		n /= 10
	}
	return s
}

// ---------------------------------------------------------------- maps

func (fr *Frame) makeMap(st *State, mt types.Type) *Term {
	ex := fr.ex
	r := fr.newRef(st, "map")
	dom, _, ln, ks, _ := ex.mapComps(mt)
	ds := ArraySort(SRef, ArraySort(ks, SBool))
	empty := App("(as const "+ArraySort(ks, SBool)+")", ArraySort(ks, SBool), TFalse)
	ex.set(st, dom, Store(ex.get(st, dom, ds), r, empty))
	ex.set(st, ln, Store(ex.get(st, ln, ArraySort(SRef, SInt)), r, IntLit(0)))
	return r
}

func (ex *Exec) mapHas(st *State, mt types.Type, m, k *Term) *Term {
	dom, _, _, ks, _ := ex.mapComps(mt)
	ds := ArraySort(SRef, ArraySort(ks, SBool))
	return And(Neq(m, TNull), Select(Select(ex.get(st, dom, ds), m), k))
}

func (ex *Exec) mapGetRaw(st *State, mt types.Type, m, k *Term) *Term {
	_, val, _, ks, vs := ex.mapComps(mt)
	return Select(Select(ex.get(st, val, ArraySort(SRef, ArraySort(ks, vs))), m), k)
}

func (fr *Frame) lookup(st *State, in *ssa.Lookup) Val {
	ex := fr.ex
	x := fr.val(st, in.X)
	k := fr.val(st, in.Index)
	mt, isMap := in.X.Type().Underlying().(*types.Map)
	if !isMap {
		// string index
		ln := App("str_len", SInt, x.T)
		fr.safety(st, "index", And(Le(IntLit(0), k.T), Lt(k.T, ln)), in.Pos(), in)
		return Val{T: ex.ctx.UF("str_at", SInt, x.T, k.T)}
	}
	fr.guardCheckMap(st, in.X, false, in.Pos())
	has := ex.mapHas(st, in.X.Type(), x.T, k.T)
	raw := ex.mapGetRaw(st, in.X.Type(), x.T, k.T)
	v := Ite(has, raw, ex.ctx.Zero(mt.Elem()))
	v = ex.ghostTyped(v, mt.Elem())
	fr.loadFacts(st, v, mt.Elem())
	if in.CommaOk {
		return Val{Tup: []Val{{T: v}, {T: has}}}
	}
	return Val{T: v}
}

func (fr *Frame) mapUpdate(st *State, in *ssa.MapUpdate) {
	ex := fr.ex
	m := fr.val(st, in.Map).T
	k := fr.val(st, in.Key).T
	v := fr.val(st, in.Value)
	if v.T == nil {
		ex.unsupported("map update with non-term value")
	}
	fr.safety(st, "mapwrite", Neq(m, TNull), in.Pos(), in)
	fr.guardCheckMap(st, in.Map, true, in.Pos())
	ex.mapStore(st, in.Map.Type(), m, k, v.T)
}

func (ex *Exec) mapStore(st *State, mt types.Type, m, k, v *Term) {
	dom, val, ln, ks, vs := ex.mapComps(mt)
	ds := ArraySort(SRef, ArraySort(ks, SBool))
	vsort := ArraySort(SRef, ArraySort(ks, vs))
	d := ex.get(st, dom, ds)
	had := Select(Select(d, m), k)
	lc := ex.get(st, ln, ArraySort(SRef, SInt))
	ex.set(st, ln, Store(lc, m, Ite(had, Select(lc, m), Add(Select(lc, m), IntLit(1)))))
	ex.set(st, dom, Store(d, m, Store(Select(d, m), k, TTrue)))
	vv := ex.get(st, val, vsort)
	ex.set(st, val, Store(vv, m, Store(Select(vv, m), k, v)))
}

func (ex *Exec) mapDelete(st *State, mt types.Type, m, k *Term) {
	dom, _, ln, ks, _ := ex.mapComps(mt)
	ds := ArraySort(SRef, ArraySort(ks, SBool))
	d := ex.get(st, dom, ds)
	had := And(Neq(m, TNull), Select(Select(d, m), k))
	lc := ex.get(st, ln, ArraySort(SRef, SInt))
	ex.set(st, ln, Store(lc, m, Ite(had, Sub(Select(lc, m), IntLit(1)), Select(lc, m))))
	ex.set(st, dom, Store(d, m, Store(Select(d, m), k, TFalse)))
}

// mapClear: clear(m) empties the domain (a no-op on a nil map, whose domain is already empty).
func (ex *Exec) mapClear(st *State, mt types.Type, m *Term) {
	dom, _, ln, ks, _ := ex.mapComps(mt)
	ds := ArraySort(SRef, ArraySort(ks, SBool))
	d := ex.get(st, dom, ds)
	lc := ex.get(st, ln, ArraySort(SRef, SInt))
	empty := ex.ctx.ConstArray(ks, SBool, TFalse)
	ex.set(st, ln, Store(lc, m, IntLit(0)))
	ex.set(st, dom, Store(d, m, empty))
}

func (ex *Exec) mapLen(st *State, mt types.Type, m *Term) *Term {
	_, _, ln, _, _ := ex.mapComps(mt)
	lc := ex.get(st, ln, ArraySort(SRef, SInt))
	return Ite(Eq(m, TNull), IntLit(0), Select(lc, m))
}

// ---------------------------------------------------------------- range over maps

type rangeIter struct {
	mapType types.Type
	m       *Term
	isStr   bool
}

func (fr *Frame) rangeInit(st *State, in *ssa.Range) Val {
	ex := fr.ex
	x := fr.val(st, in.X)
	if _, ok := in.X.Type().Underlying().(*types.Map); !ok {
		ex.unsupported("range over %s", in.X.Type())
	}
	// reset the visited set of this map
	comp, cs, ks := ex.visitedComp(in.X.Type())
	empty := App("(as const "+ArraySort(ks, SBool)+")", ArraySort(ks, SBool), TFalse)
	ex.set(st, comp, Store(ex.get(st, comp, cs), x.T, empty))
	if fr.iters == nil {
		fr.iters = map[ssa.Value]*rangeIter{}
	}
	fr.iters[in] = &rangeIter{mapType: in.X.Type(), m: x.T}
	return Val{T: x.T}
}

func (ex *Exec) visitedComp(mt types.Type) (string, string, string) {
	m := mt.Underlying().(*types.Map)
	ks := ex.ctx.SortOf(m.Key())
	return "Visited_" + typeKey(mt), ArraySort(SRef, ArraySort(ks, SBool)), ks
}

func (fr *Frame) next(st *State, in *ssa.Next) Val {
	ex := fr.ex
	it := fr.iters[in.Iter]
	if it == nil {
		ex.unsupported("next on unknown iterator")
	}
	mt := it.mapType.Underlying().(*types.Map)
	comp, cs, ks := ex.visitedComp(it.mapType)
	vis := ex.get(st, comp, cs)
	ok := ex.ctx.Fresh("next.ok", SBool)
	k := ex.ctx.Fresh("next.k", ks)
	has := ex.mapHas(st, it.mapType, it.m, k)
	visited := Select(Select(vis, it.m), k)
	ex.assume(st, Implies(ok, And(has, Not(visited))))
	// termination: every key present has been visited
	kb := Bound{Name: ex.boundName("k"), Sort: ks}
	kv := V(kb.Name, ks)
	ex.assume(st, Implies(Not(ok), Forall([]Bound{kb}, Implies(ex.mapHas(st, it.mapType, it.m, kv), Select(Select(vis, it.m), kv)))))
	ex.set(st, comp, Store(vis, it.m, Ite(ok, Store(Select(vis, it.m), k, TTrue), Select(vis, it.m))))
	v := ex.mapGetRaw(st, it.mapType, it.m, k)
	fr.loadFacts(st, k, mt.Key())
	fr.loadFacts(st, v, mt.Elem())
	return Val{Tup: []Val{{T: ok}, {T: k}, {T: v}}}
}

// ---------------------------------------------------------------- channels

func chanElem(t types.Type) types.Type { return t.Underlying().(*types.Chan).Elem() }

func (ex *Exec) chanComps(elem types.Type) (seq, seqSort, n string) {
	es := ex.ctx.SortOf(elem)
	// counters and the closed flag are kept per element type: channels of different element types are different
	// objects, and this keeps them apart without any aliasing side conditions
	return "ChanSent_" + typeKey(elem), ArraySort(SRef, ArraySort(SInt, es)), "ChanSentN_" + typeKey(elem)
}

func (fr *Frame) chanSend(st *State, ch, x *Term, chType types.Type, cond *Term, pos token.Pos) {
	ex := fr.ex
	elem := chanElem(chType)
	seq, ss, nc := ex.chanComps(elem)
	ns := ArraySort(SRef, SInt)
	closed := ex.get(st, "ChanClosed_"+typeKey(elem), ArraySort(SRef, SBool))
	if cond.Op == "true" {
		fr.safetyNamed(st, "chan", Not(Select(closed, ch)), pos, "send on closed channel", nil)
	} else {
		fr.safetyNamed(st, "chan", Implies(cond, Not(Select(closed, ch))), pos, "send on closed channel", nil)
	}
	sq := ex.get(st, seq, ss)
	n := ex.get(st, nc, ns)
	cnt := Select(n, ch)
	ex.assume(st, Le(IntLit(0), cnt)) // ghost counters count events
	ex.set(st, seq, Ite(cond, Store(sq, ch, Store(Select(sq, ch), cnt, x)), sq))
	ex.set(st, nc, Ite(cond, Store(n, ch, Add(cnt, IntLit(1))), n))
	if ex.stamps && ex.ghost == 0 {
		// every send is stamped with the number of values of this element type the thread has received so far
		sc, scs := "ChanSentStamp_"+typeKey(elem), ArraySort(SRef, ArraySort(SInt, SInt))
		stp := ex.get(st, sc, scs)
		tot := ex.get(st, "LogN_recv_"+sanitize(typeKey(elem)), SInt)
		ex.set(st, sc, Ite(cond, Store(stp, ch, Store(Select(stp, ch), cnt, tot)), stp))
	}
}

func (fr *Frame) chanRecv(st *State, ch *Term, chType types.Type, commaOk bool, pos token.Pos) Val {
	ex := fr.ex
	elem := chanElem(chType)
	es := ex.ctx.SortOf(elem)
	seq := "ChanRecv_" + typeKey(elem)
	ss := ArraySort(SRef, ArraySort(SInt, es))
	ns := ArraySort(SRef, SInt)
	v := ex.ctx.Fresh("recv", es)
	ok := ex.ctx.Fresh("recv.ok", SBool)
	sq := ex.get(st, seq, ss)
	n := ex.get(st, "ChanRecvN_"+typeKey(elem), ns)
	cnt := Select(n, ch)
	ex.assume(st, Implies(Not(ok), Eq(v, ex.ctx.Zero(elem))))
	// a channel the contract declares never closed (by anybody: an assumption about the environment, listed as
	// trusted) always yields a value
	if ex.ghost == 0 {
		ncl := ex.get(st, "ChanNeverClosed_"+typeKey(elem), ArraySort(SRef, SBool))
		ex.assume(st, Implies(Select(ncl, ch), ok))
	}
	// the log of received values doubles as a prophecy: what is received as the cnt-th value is what the log (an
	// arbitrary array until then) holds at cnt, so that a precondition can speak about the values still to come
	// (forall j >= recvN(ch): P(recvAt(ch, j)))
	ex.assume(st, Implies(ok, Eq(v, Select(Select(sq, ch), cnt))))
	fr.loadFacts(st, v, elem)
	ex.set(st, seq, Ite(ok, Store(sq, ch, Store(Select(sq, ch), cnt, v)), sq))
	ex.set(st, "ChanRecvN_"+typeKey(elem), Ite(ok, Store(n, ch, Add(cnt, IntLit(1))), n))
	if ex.stamps && ex.ghost == 0 {
		// thread-level log of the values of this element type received, in the order received (whatever the channel)
		lc, ln := "Log_recv_"+sanitize(typeKey(elem)), "LogN_recv_"+sanitize(typeKey(elem))
		l := ex.get(st, lc, ArraySort(SInt, es))
		tn := ex.get(st, ln, SInt)
		ex.assume(st, Le(IntLit(0), tn))
		ex.set(st, lc, Ite(ok, Store(l, tn, v), l))
		ex.set(st, ln, Ite(ok, Add(tn, IntLit(1)), tn))
	}
	// ghost: a receive that reports "closed" means the channel is closed and everything sent on it has been taken
	dc := "ChanDrained_" + typeKey(elem)
	dr := ex.get(st, dc, ArraySort(SRef, SBool))
	ex.set(st, dc, Ite(ok, dr, Store(dr, ch, TTrue)))
	if commaOk {
		return Val{Tup: []Val{{T: v}, {T: ok}}}
	}
	return Val{T: v}
}

func (fr *Frame) selectOp(st *State, in *ssa.Select) Val {
	ex := fr.ex
	idx := ex.ctx.Fresh("select.idx", SInt)
	lo := IntLit(0)
	if !in.Blocking {
		lo = IntLit(-1)
	}
	ex.assume(st, And(Le(lo, idx), Lt(idx, IntLit(int64(len(in.States))))))
	recvOk := ex.ctx.Fresh("select.ok", SBool)
	out := []Val{{T: idx}, {T: recvOk}}
	for i, s := range in.States {
		chosen := Eq(idx, IntLit(int64(i)))
		ch := fr.val(st, s.Chan)
		// a case on a nil channel is never ready
		ex.assume(st, Implies(chosen, Neq(ch.T, TNull)))
		if s.Dir == types.SendOnly {
			x := fr.val(st, s.Send)
			fr.chanSend(st, ch.T, x.T, s.Chan.Type(), chosen, s.Pos)
		} else {
			// (read-only ghost state is materialised before the clone, so that the merge below does not take a first
			// read for a write)
			ex.get(st, "ChanNeverClosed_"+typeKey(chanElem(s.Chan.Type())), ArraySort(SRef, SBool))
			sub := st.clone()
			sub.pc = And(st.pc, chosen)
			r := fr.chanRecv(sub, ch.T, s.Chan.Type(), true, s.Pos)
			// merge ghost effects of the receive
			for k, v := range sub.heap {
				if old, ok := st.heap[k]; !ok || old != v {
					ex.set(st, k, Ite(chosen, v, ex.get(st, k, ex.compSort[k])))
				}
			}
			ex.assume(st, Implies(chosen, Eq(recvOk, r.Tup[1].T)))
			out = append(out, r.Tup[0])
		}
	}
	return Val{Tup: out}
}
