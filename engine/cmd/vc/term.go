package main

import (
	"fmt"
	"math/big"
	"sort"
	"strings"
)

// Term is an SMT-LIB term. Leaves have no Args. Quantifiers carry Bound.
type Term struct {
	Op    string
	Args  []*Term
	Sort  string
	Bound []Bound // for forall/exists
	Pat   []*Term // optional :pattern terms for quantifiers
	size  int
	hasQ  int8 // 0 unknown, 1 contains a quantifier, 2 does not
}

type Bound struct{ Name, Sort string }

const (
	SInt  = "Int"
	SBool = "Bool"
	SReal = "Real"
	SStr  = "Str"
	SRef  = "Ref"
	SIfc  = "Iface"
	SSlc  = "Slice"
)

var (
	TTrue  = &Term{Op: "true", Sort: SBool}
	TFalse = &Term{Op: "false", Sort: SBool}
	TNull  = &Term{Op: "null", Sort: SRef}
)

func ArraySort(k, v string) string { return "(Array " + k + " " + v + ")" }

// arrayParts splits "(Array K V)" into K and V.
func arrayParts(s string) (string, string) {
	if !strings.HasPrefix(s, "(Array ") {
		panic("not an array sort: " + s)
	}
	body := s[len("(Array ") : len(s)-1]
	depth := 0
	for i, c := range body {
		switch c {
		case '(':
			depth++
		case ')':
			depth--
		case ' ':
			if depth == 0 {
				return body[:i], body[i+1:]
			}
		}
	}
	panic("bad array sort " + s)
}

func V(name, sort string) *Term { return &Term{Op: name, Sort: sort} }

func App(op, sort string, args ...*Term) *Term {
	return &Term{Op: op, Sort: sort, Args: args}
}

func IntLit(n int64) *Term { return BigLit(big.NewInt(n)) }

func BigLit(n *big.Int) *Term {
	if n.Sign() < 0 {
		return &Term{Op: "(- " + new(big.Int).Neg(n).String() + ")", Sort: SInt}
	}
	return &Term{Op: n.String(), Sort: SInt}
}

func RealLit(s string) *Term { return &Term{Op: s, Sort: SReal} }

func (t *Term) IsLit() bool { return len(t.Args) == 0 && (t.Op[0] >= '0' && t.Op[0] <= '9' || strings.HasPrefix(t.Op, "(- ")) }

func (t *Term) LitVal() (*big.Int, bool) {
	if t.Sort != SInt || len(t.Args) != 0 {
		return nil, false
	}
	s := t.Op
	neg := false
	if strings.HasPrefix(s, "(- ") {
		neg = true
		s = s[3 : len(s)-1]
	}
	n, ok := new(big.Int).SetString(s, 10)
	if !ok {
		return nil, false
	}
	if neg {
		n.Neg(n)
	}
	return n, true
}

func BoolLit(b bool) *Term {
	if b {
		return TTrue
	}
	return TFalse
}

func And(ts ...*Term) *Term {
	var out []*Term
	for _, t := range ts {
		if t == nil || t == TTrue || t.Op == "true" {
			continue
		}
		if t.Op == "false" {
			return TFalse
		}
		if t.Op == "and" {
			out = append(out, t.Args...)
			continue
		}
		out = append(out, t)
	}
	if len(out) == 0 {
		return TTrue
	}
	if len(out) == 1 {
		return out[0]
	}
	return &Term{Op: "and", Sort: SBool, Args: out}
}

func Or(ts ...*Term) *Term {
	var out []*Term
	for _, t := range ts {
		if t.Op == "false" {
			continue
		}
		if t.Op == "true" {
			return TTrue
		}
		if t.Op == "or" {
			out = append(out, t.Args...)
			continue
		}
		out = append(out, t)
	}
	if len(out) == 0 {
		return TFalse
	}
	if len(out) == 1 {
		return out[0]
	}
	return &Term{Op: "or", Sort: SBool, Args: out}
}

func Not(t *Term) *Term {
	switch t.Op {
	case "true":
		return TFalse
	case "false":
		return TTrue
	case "not":
		return t.Args[0]
	}
	return &Term{Op: "not", Sort: SBool, Args: []*Term{t}}
}

func Implies(a, b *Term) *Term {
	if a.Op == "true" {
		return b
	}
	if a.Op == "false" || b.Op == "true" {
		return TTrue
	}
	return &Term{Op: "=>", Sort: SBool, Args: []*Term{a, b}}
}

func Ite(c, a, b *Term) *Term {
	if c.Op == "true" {
		return a
	}
	if c.Op == "false" {
		return b
	}
	if a == b || (len(a.Args) == 0 && len(b.Args) == 0 && a.Op == b.Op && a.Sort == b.Sort) {
		return a
	}
	if a.Sort == SBool {
		if a.Op == "true" && b.Op == "false" {
			return c
		}
		if a.Op == "false" && b.Op == "true" {
			return Not(c)
		}
		// short-circuit booleans lowered to control flow come back as ite over constants
		if a.Op == "true" {
			return Or(c, b)
		}
		if a.Op == "false" {
			return And(Not(c), b)
		}
		if b.Op == "true" {
			return Or(Not(c), a)
		}
		if b.Op == "false" {
			return And(c, a)
		}
		if containsQuantifier(a) || containsQuantifier(b) {
			// keep quantified branches under a fixed polarity (an ite hides them from skolemisation)
			return Or(And(c, a), And(Not(c), b))
		}
	}
	return &Term{Op: "ite", Sort: a.Sort, Args: []*Term{c, a, b}}
}

func Eq(a, b *Term) *Term {
	if a == b {
		return TTrue
	}
	if a.Sort != b.Sort {
		panic(fmt.Sprintf("Eq sort mismatch: %s:%s vs %s:%s", a.String(), a.Sort, b.String(), b.Sort))
	}
	if len(a.Args) == 0 && len(b.Args) == 0 && a.Op == b.Op {
		return TTrue
	}
	if a.IsLit() && b.IsLit() {
		return BoolLit(a.Op == b.Op)
	}
	if a.Sort == SBool {
		if b.Op == "true" {
			return a
		}
		if b.Op == "false" {
			return Not(a)
		}
		if a.Op == "true" {
			return b
		}
		if a.Op == "false" {
			return Not(b)
		}
	}
	return &Term{Op: "=", Sort: SBool, Args: []*Term{a, b}}
}

func Neq(a, b *Term) *Term { return Not(Eq(a, b)) }

func Select(arr, idx *Term) *Term {
	_, v := arrayParts(arr.Sort)
	// select over store with syntactically identical index
	cur := arr
	for cur.Op == "store" {
		if sameTerm(cur.Args[1], idx) {
			return cur.Args[2]
		}
		if !distinctLits(cur.Args[1], idx) {
			break
		}
		cur = cur.Args[0]
	}
	return &Term{Op: "select", Sort: v, Args: []*Term{cur, idx}}
}

func distinctLits(a, b *Term) bool {
	return a.IsLit() && b.IsLit() && a.Op != b.Op
}

func Store(arr, idx, val *Term) *Term {
	k, v := arrayParts(arr.Sort)
	if idx.Sort != k || val.Sort != v {
		panic(fmt.Sprintf("Store sort mismatch: arr %s idx %s:%s val %s:%s", arr.Sort, idx.String(), idx.Sort, val.String(), val.Sort))
	}
	return &Term{Op: "store", Sort: arr.Sort, Args: []*Term{arr, idx, val}}
}

func sameTerm(a, b *Term) bool {
	if a == b {
		return true
	}
	if a.Op != b.Op || len(a.Args) != len(b.Args) || a.Sort != b.Sort || len(a.Bound) != 0 || len(b.Bound) != 0 {
		return false
	}
	if a.Size() > 40 {
		return false
	}
	for i := range a.Args {
		if !sameTerm(a.Args[i], b.Args[i]) {
			return false
		}
	}
	return true
}

func Add(a, b *Term) *Term {
	if x, ok := a.LitVal(); ok {
		if y, ok := b.LitVal(); ok {
			return BigLit(new(big.Int).Add(x, y))
		}
		if x.Sign() == 0 {
			return b
		}
	}
	if y, ok := b.LitVal(); ok && y.Sign() == 0 {
		return a
	}
	return App("+", a.Sort, a, b)
}

func Sub(a, b *Term) *Term {
	if x, ok := a.LitVal(); ok {
		if y, ok := b.LitVal(); ok {
			return BigLit(new(big.Int).Sub(x, y))
		}
	}
	if y, ok := b.LitVal(); ok && y.Sign() == 0 {
		return a
	}
	return App("-", a.Sort, a, b)
}

func Le(a, b *Term) *Term { return cmp("<=", a, b) }
func Lt(a, b *Term) *Term { return cmp("<", a, b) }
func Ge(a, b *Term) *Term { return cmp(">=", a, b) }
func Gt(a, b *Term) *Term { return cmp(">", a, b) }

func cmp(op string, a, b *Term) *Term {
	if x, ok := a.LitVal(); ok {
		if y, ok := b.LitVal(); ok {
			c := x.Cmp(y)
			switch op {
			case "<=":
				return BoolLit(c <= 0)
			case "<":
				return BoolLit(c < 0)
			case ">=":
				return BoolLit(c >= 0)
			case ">":
				return BoolLit(c > 0)
			}
		}
	}
	return App(op, SBool, a, b)
}

func Forall(bs []Bound, body *Term) *Term {
	if body.Op == "true" {
		return TTrue
	}
	return &Term{Op: "forall", Sort: SBool, Bound: bs, Args: []*Term{body}}
}

func Exists(bs []Bound, body *Term) *Term {
	if body.Op == "false" {
		return TFalse
	}
	return &Term{Op: "exists", Sort: SBool, Bound: bs, Args: []*Term{body}}
}

func (t *Term) Size() int {
	if t.size != 0 {
		return t.size
	}
	n := 1
	for _, a := range t.Args {
		n += a.Size()
		if n > 1<<30 {
			n = 1 << 30
		}
	}
	t.size = n
	return n
}

// String prints the term. Terms are DAGs in memory; shared sub-terms are
// bound with let so that the text stays linear in the DAG size.
func (t *Term) String() string {
	var sb strings.Builder
	n := 0
	printScope(&sb, t, &n)
	return sb.String()
}

func printScope(sb *strings.Builder, root *Term, ctr *int) {
	refs := map[*Term]int{}
	var count func(n *Term)
	count = func(n *Term) {
		refs[n]++
		if refs[n] > 1 || len(n.Bound) > 0 {
			return
		}
		for _, a := range n.Args {
			count(a)
		}
	}
	count(root)
	shared := false
	for _, c := range refs {
		if c > 1 {
			shared = true
			break
		}
	}
	names := map[*Term]string{}
	var order []*Term
	if shared {
		visited := map[*Term]bool{}
		var visit func(n *Term)
		visit = func(n *Term) {
			if visited[n] {
				return
			}
			visited[n] = true
			if len(n.Bound) == 0 {
				for _, a := range n.Args {
					visit(a)
				}
			}
			if n != root && refs[n] > 1 && len(n.Args) > 0 && n.Size() >= 6 {
				*ctr++
				names[n] = fmt.Sprintf("$l%d", *ctr)
				order = append(order, n)
			}
		}
		visit(root)
	}
	var emit func(n *Term, self bool)
	emit = func(n *Term, self bool) {
		if !self {
			if nm, ok := names[n]; ok {
				sb.WriteString(nm)
				return
			}
		}
		if len(n.Bound) > 0 {
			sb.WriteString("(")
			sb.WriteString(n.Op)
			sb.WriteString(" (")
			for _, b := range n.Bound {
				sb.WriteString("(" + b.Name + " " + b.Sort + ")")
			}
			sb.WriteString(") ")
			if len(n.Pat) > 0 {
				sb.WriteString("(! ")
				printScope(sb, n.Args[0], ctr)
				sb.WriteString(" :pattern (")
				for i, p := range n.Pat {
					if i > 0 {
						sb.WriteString(" ")
					}
					p.write(sb)
				}
				sb.WriteString("))")
			} else {
				printScope(sb, n.Args[0], ctr)
			}
			sb.WriteString(")")
			return
		}
		if len(n.Args) == 0 {
			sb.WriteString(n.Op)
			return
		}
		sb.WriteString("(")
		sb.WriteString(n.Op)
		for _, a := range n.Args {
			sb.WriteString(" ")
			emit(a, false)
		}
		sb.WriteString(")")
	}
	for _, n := range order {
		sb.WriteString("(let ((" + names[n] + " ")
		emit(n, true)
		sb.WriteString(")) ")
	}
	emit(root, false)
	for range order {
		sb.WriteString(")")
	}
}

func (t *Term) write(sb *strings.Builder) {
	if len(t.Bound) > 0 {
		sb.WriteString("(")
		sb.WriteString(t.Op)
		sb.WriteString(" (")
		for _, b := range t.Bound {
			sb.WriteString("(" + b.Name + " " + b.Sort + ")")
		}
		sb.WriteString(") ")
		if len(t.Pat) > 0 {
			sb.WriteString("(! ")
			t.Args[0].write(sb)
			sb.WriteString(" :pattern (")
			for i, p := range t.Pat {
				if i > 0 {
					sb.WriteString(" ")
				}
				p.write(sb)
			}
			sb.WriteString("))")
		} else {
			t.Args[0].write(sb)
		}
		sb.WriteString(")")
		return
	}
	if len(t.Args) == 0 {
		sb.WriteString(t.Op)
		return
	}
	sb.WriteString("(")
	sb.WriteString(t.Op)
	for _, a := range t.Args {
		sb.WriteString(" ")
		a.write(sb)
	}
	sb.WriteString(")")
}

// Subst replaces leaf variables by name.
func Subst(t *Term, m map[string]*Term) *Term {
	if len(m) == 0 {
		return t
	}
	memo := map[*Term]*Term{}
	return subst(t, m, memo)
}

func subst(t *Term, m map[string]*Term, memo map[*Term]*Term) *Term {
	if r, ok := memo[t]; ok {
		return r
	}
	var r *Term
	if len(t.Args) == 0 {
		if x, ok := m[t.Op]; ok {
			r = x
		} else {
			r = t
		}
	} else {
		changed := false
		args := make([]*Term, len(t.Args))
		for i, a := range t.Args {
			args[i] = subst(a, m, memo)
			if args[i] != a {
				changed = true
			}
		}
		var pats []*Term
		for _, p := range t.Pat {
			q := subst(p, m, memo)
			if q != p {
				changed = true
			}
			pats = append(pats, q)
		}
		if !changed {
			r = t
		} else {
			r = rebuild(t, args, pats)
		}
	}
	memo[t] = r
	return r
}

// rebuild re-applies the smart constructors so that simplifications fire after substitution.
func rebuild(t *Term, args []*Term, pats []*Term) *Term {
	if len(t.Bound) > 0 {
		return &Term{Op: t.Op, Sort: t.Sort, Bound: t.Bound, Args: args, Pat: pats}
	}
	switch t.Op {
	case "and":
		return And(args...)
	case "or":
		return Or(args...)
	case "not":
		return Not(args[0])
	case "=>":
		return Implies(args[0], args[1])
	case "ite":
		return Ite(args[0], args[1], args[2])
	case "=":
		return Eq(args[0], args[1])
	case "select":
		return Select(args[0], args[1])
	}
	return &Term{Op: t.Op, Sort: t.Sort, Args: args}
}

// FreeLeaves collects leaf symbol names (excluding bound variables).
func FreeLeaves(t *Term, out map[string]string) {
	seen := map[*Term]bool{}
	var walk func(t *Term, bound map[string]bool)
	walk = func(t *Term, bound map[string]bool) {
		if len(t.Bound) == 0 && seen[t] {
			return
		}
		if len(t.Bound) > 0 {
			nb := map[string]bool{}
			for k := range bound {
				nb[k] = true
			}
			for _, b := range t.Bound {
				nb[b.Name] = true
			}
			for _, a := range t.Args {
				walk(a, nb)
			}
			for _, p := range t.Pat {
				walk(p, nb)
			}
			return
		}
		if len(bound) == 0 {
			seen[t] = true
		}
		if len(t.Args) == 0 {
			if !bound[t.Op] {
				out[t.Op] = t.Sort
			}
			return
		}
		for _, a := range t.Args {
			walk(a, bound)
		}
	}
	walk(t, nil)
}

func sortedKeys[V any](m map[string]V) []string {
	ks := make([]string, 0, len(m))
	for k := range m {
		ks = append(ks, k)
	}
	sort.Strings(ks)
	return ks
}

// containsQuantifier reports whether t has a quantifier somewhere inside
// (memoised in the node).
func containsQuantifier(t *Term) bool {
	if t.hasQ != 0 {
		return t.hasQ == 1
	}
	r := len(t.Bound) > 0
	if !r {
		for _, a := range t.Args {
			if containsQuantifier(a) {
				r = true
				break
			}
		}
	}
	if r {
		t.hasQ = 1
	} else {
		t.hasQ = 2
	}
	return r
}
