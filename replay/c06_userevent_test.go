package serf

// Replay driver for C06 (known finding): concurrent UserEvent calls on one node
// can stamp the same Lamport time, because the time is read (eventClock.Time())
// before the clock is advanced (eventClock.Increment()) by a separate step.
// Injected with `go test -overlay`; never written into /repo.

import (
	"fmt"
	"io"
	"log"
	"sync"
	"testing"

	"github.com/hashicorp/serf/testutil"
)

func TestVerifReplayC06UserEvent(t *testing.T) {
	for attempt := 0; attempt < 20; attempt++ {
		eventCh := make(chan Event, 4096)
		ip, returnFn := testutil.TakeIP()
		conf := testConfig(nil, ip)
		conf.Logger = log.New(io.Discard, "", 0)
		conf.MemberlistConfig.Logger = conf.Logger
		conf.EventCh = eventCh
		s, err := Create(conf)
		if err != nil {
			returnFn()
			t.Skipf("cannot create serf: %v", err)
		}
		const workers, per = 16, 40
		var wg sync.WaitGroup
		for w := 0; w < workers; w++ {
			wg.Add(1)
			go func(w int) {
				defer wg.Done()
				for i := 0; i < per; i++ {
					_ = s.UserEvent(fmt.Sprintf("e-%d-%d", w, i), nil, false)
				}
			}(w)
		}
		wg.Wait()
		seen := map[LamportTime]string{}
		dup := ""
	drain:
		for {
			select {
			case e := <-eventCh:
				if ue, ok := e.(UserEvent); ok {
					if prev, ok := seen[ue.LTime]; ok && prev != ue.Name {
						dup = fmt.Sprintf("LTime %d stamped on both %q and %q", ue.LTime, prev, ue.Name)
					}
					seen[ue.LTime] = ue.Name
				}
			default:
				break drain
			}
		}
		s.Shutdown()
		returnFn()
		if dup != "" {
			fmt.Println("REPLAY-CONFIRMED C06:", dup)
			return
		}
	}
	fmt.Println("REPLAY-NOT-REPRODUCED C06")
}
