package serf

import "testing"

// Replay driver for C17: a member that had no new event since the previous flush must not be
// reported by the next flush. Drives the real memberEventCoalescer through two flushes.
func TestVerifReplayC17StaleLatest(t *testing.T) {
	c := &memberEventCoalescer{
		lastEvents:   make(map[string]EventType),
		latestEvents: make(map[string]coalesceEvent),
	}
	out := make(chan Event, 16)
	c.Coalesce(MemberEvent{Type: EventMemberUpdate, Members: []Member{{Name: "a"}}})
	c.Flush(out)
	for len(out) > 0 {
		<-out
	}
	// only "b" has a new event before the second flush
	c.Coalesce(MemberEvent{Type: EventMemberJoin, Members: []Member{{Name: "b"}}})
	c.Flush(out)
	stale := 0
	for len(out) > 0 {
		e := (<-out).(MemberEvent)
		for _, m := range e.Members {
			if m.Name == "a" {
				stale++
				t.Logf("REPLAY-CONFIRMED C17: second flush reports %v for member a, which had no new event since the first flush", e.Type)
			}
		}
	}
	if stale == 0 {
		t.Logf("REPLAY-NOT-REPRODUCED C17: the second flush reported only members with new events")
	}
}
