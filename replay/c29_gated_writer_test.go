package agent

import (
	"bytes"
	"sync"
	"testing"
)

type c29CountingWriter struct {
	mu    sync.Mutex
	lines [][]byte
}

func (c *c29CountingWriter) Write(p []byte) (int, error) {
	c.mu.Lock()
	defer c.mu.Unlock()
	c.lines = append(c.lines, append([]byte(nil), p...))
	return len(p), nil
}

// Replay driver for C29: every line written before the gate opens, from any number of concurrent writers, must reach
// the underlying output exactly once, ahead of the lines written after the gate opened. Drives the real GatedWriter.
func TestVerifReplayC29GatedWriter(t *testing.T) {
	confirmed := false
	for round := 0; round < 400 && !confirmed; round++ {
		out := &c29CountingWriter{}
		w := &GatedWriter{Writer: out}
		const writers, each = 8, 400
		var wg sync.WaitGroup
		for g := 0; g < writers; g++ {
			wg.Add(1)
			go func() {
				defer wg.Done()
				for i := 0; i < each; i++ {
					w.Write([]byte("early\n"))
				}
			}()
		}
		wg.Wait()
		w.Flush()
		w.Write([]byte("late\n"))
		early := 0
		lateSeen := false
		misordered := false
		for _, l := range out.lines {
			if bytes.Equal(l, []byte("early\n")) {
				early++
				if lateSeen {
					misordered = true
				}
			} else {
				lateSeen = true
			}
		}
		if early != writers*each || misordered {
			t.Logf("REPLAY-CONFIRMED C29: %d of %d lines written before the gate opened reached the output (misordered=%v)", early, writers*each, misordered)
			confirmed = true
		}
	}
	if !confirmed {
		t.Logf("REPLAY-NOT-REPRODUCED C29: every buffered line was delivered once and in order in every round")
	}
}
