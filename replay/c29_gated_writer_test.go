package agent

import (
	"bytes"
	"sync"
	"testing"
	"time"
)

// c29SlowWriter holds its first Write until released, so that a Flush can be caught in the middle of draining.
type c29SlowWriter struct {
	c29CountingWriter
	once     sync.Once
	entered  chan struct{}
	released chan struct{}
}

func (s *c29SlowWriter) Write(p []byte) (int, error) {
	first := false
	s.once.Do(func() { first = true })
	if first {
		close(s.entered)
		<-s.released
	}
	return s.c29CountingWriter.Write(p)
}

// a line written while Flush is still draining the buffer must not reach the output ahead of the buffered ones
func c29OvertakeDuringFlush(t *testing.T) bool {
	out := &c29SlowWriter{entered: make(chan struct{}), released: make(chan struct{})}
	w := &GatedWriter{Writer: out}
	w.Write([]byte("early\n"))
	w.Write([]byte("early\n"))
	flushed, wrote := make(chan struct{}), make(chan struct{})
	go func() { w.Flush(); close(flushed) }()
	select {
	case <-out.entered:
	case <-time.After(10 * time.Second):
		return false
	}
	go func() { w.Write([]byte("late\n")); close(wrote) }()
	select {
	case <-wrote:
	case <-time.After(300 * time.Millisecond):
	}
	close(out.released)
	for _, ch := range []chan struct{}{flushed, wrote} {
		select {
		case <-ch:
		case <-time.After(10 * time.Second):
			return false
		}
	}
	out.mu.Lock()
	defer out.mu.Unlock()
	if len(out.lines) != 3 || !bytes.Equal(out.lines[2], []byte("late\n")) {
		t.Logf("REPLAY-CONFIRMED C29: a line written while the gate was being opened overtook buffered lines: %q", out.lines)
		return true
	}
	return false
}

type c29CountingWriter struct {
	mu    sync.Mutex
	lines [][]byte
}

func (c *c29CountingWriter) Write(p []byte) (int, error) {
	c.mu.Lock()
	defer c.mu.Unlock()
	c.lines = append(c.lines, append([]byte(nil), p...))
	return len(p), nil
}

// Replay driver for C29: every line written before the gate opens, from any number of concurrent writers, must reach
// the underlying output exactly once, ahead of the lines written after the gate opened. Drives the real GatedWriter.
func TestVerifReplayC29GatedWriter(t *testing.T) {
	confirmed := c29OvertakeDuringFlush(t)
	for round := 0; round < 400 && !confirmed; round++ {
		out := &c29CountingWriter{}
		w := &GatedWriter{Writer: out}
		const writers, each = 8, 400
		var wg sync.WaitGroup
		for g := 0; g < writers; g++ {
			wg.Add(1)
			go func() {
				defer wg.Done()
				for i := 0; i < each; i++ {
					w.Write([]byte("early\n"))
				}
			}()
		}
		wg.Wait()
		w.Flush()
		w.Write([]byte("late\n"))
		early := 0
		lateSeen := false
		misordered := false
		for _, l := range out.lines {
			if bytes.Equal(l, []byte("early\n")) {
				early++
				if lateSeen {
					misordered = true
				}
			} else {
				lateSeen = true
			}
		}
		if early != writers*each || misordered {
			t.Logf("REPLAY-CONFIRMED C29: %d of %d lines written before the gate opened reached the output (misordered=%v)", early, writers*each, misordered)
			confirmed = true
		}
	}
	if !confirmed {
		t.Logf("REPLAY-NOT-REPRODUCED C29: every buffered line was delivered once and in order in every round")
	}
}
