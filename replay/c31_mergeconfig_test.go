package agent

import "testing"

// Replay driver for C31: MergeConfig must not modify its inputs, and a switch turned on by the later source must
// be on in the result. Calls the real MergeConfig.
func TestVerifReplayC31MergeConfig(t *testing.T) {
	a := &Config{Tags: map[string]string{"k": "a"}}
	b := &Config{Tags: map[string]string{"k": "b", "z": "1"}, ValidateNodeNames: true, MsgpackUseNewTimeFormat: true}
	r := MergeConfig(a, b)
	confirmed := false
	if a.Tags["k"] != "a" || len(a.Tags) != 1 {
		t.Logf("REPLAY-CONFIRMED C31: MergeConfig modified its first input: a.Tags is now %v", a.Tags)
		confirmed = true
	}
	if !r.ValidateNodeNames || !r.MsgpackUseNewTimeFormat {
		t.Logf("REPLAY-CONFIRMED C31: switches set by the later source are dropped: ValidateNodeNames=%v MsgpackUseNewTimeFormat=%v", r.ValidateNodeNames, r.MsgpackUseNewTimeFormat)
		confirmed = true
	}
	if !confirmed {
		t.Logf("REPLAY-NOT-REPRODUCED C31: inputs untouched and both switches carried over")
	}
}
