package agent

import (
	"encoding/json"
	"os"
	"path/filepath"
	"reflect"
	"strings"
	"testing"

	"github.com/hashicorp/serf/serf"
	"github.com/hashicorp/serf/testutil"
)

// Replay driver for C30: after a tag edit the node rejects (encoded tags above the metadata limit), the tags file
// must still hold the tags in effect. Drives a real agent.
func TestVerifReplayC30RejectedEditPersisted(t *testing.T) {
	td := t.TempDir()
	ip1, returnFn1 := testutil.TakeIP()
	defer returnFn1()
	agentConfig := DefaultConfig()
	agentConfig.TagsFile = filepath.Join(td, "tags.json")
	a1 := testAgentWithConfig(t, ip1, agentConfig, serf.DefaultConfig(), nil)
	if err := a1.Start(); err != nil {
		t.Fatalf("err: %v", err)
	}
	defer a1.Shutdown()
	defer a1.Leave()
	testutil.Yield()
	good := map[string]string{"role": "web"}
	if err := a1.SetTags(good); err != nil {
		t.Fatalf("err: %v", err)
	}
	huge := map[string]string{"role": "web", "blob": strings.Repeat("x", 2048)}
	if err := a1.SetTags(huge); err == nil {
		t.Logf("REPLAY-NOT-REPRODUCED C30: the oversize edit was accepted")
		return
	}
	inEffect := a1.Serf().LocalMember().Tags
	data, err := os.ReadFile(agentConfig.TagsFile)
	if err != nil {
		t.Fatalf("err: %v", err)
	}
	onDisk := map[string]string{}
	if err := json.Unmarshal(data, &onDisk); err != nil {
		t.Fatalf("err: %v", err)
	}
	if !reflect.DeepEqual(onDisk, inEffect) {
		t.Logf("REPLAY-CONFIRMED C30: after a rejected edit the tags file holds %d tag(s) (with the rejected %d-byte value) while the tags in effect are %v", len(onDisk), len(onDisk["blob"]), inEffect)
	} else {
		t.Logf("REPLAY-NOT-REPRODUCED C30: tags file equals the tags in effect after the rejected edit")
	}
}
