package serf

import (
	"fmt"
	"log"
	"os"
	"os/exec"
	"path/filepath"
	"testing"
	"time"
)

// Replay driver for C11: the process is killed (SIGKILL, injected by strace at the system call) at the moment a
// compaction is about to rename the compacted file into place; a restart from the same directory must still find the
// members that had been recorded. The child half of the test is this same test binary.
func TestVerifReplayC11CrashAtRename(t *testing.T) {
	if dir := os.Getenv("VERIF_C11_DIR"); dir != "" {
		c11Child(t, dir)
		return
	}
	strace, err := exec.LookPath("strace")
	if err != nil {
		t.Logf("REPLAY-NOT-REPRODUCED C11: strace is not available, no crash was injected")
		return
	}
	// the kill is injected at the first, second and third rename the process makes: a compaction that goes through a
	// backup name has its window at a later rename
	for when := 1; when <= 3; when++ {
		dir := t.TempDir()
		cmd := exec.Command(strace, "-f", "-qq", "-o", os.DevNull, "-e", "trace=rename,renameat,renameat2",
			"-e", fmt.Sprintf("inject=rename,renameat,renameat2:signal=KILL:when=%d", when), os.Args[0], "-test.run", "^TestVerifReplayC11CrashAtRename$")
		cmd.Env = append(os.Environ(), "VERIF_C11_DIR="+dir)
		out, _ := cmd.CombinedOutput()
		if cmd.ProcessState == nil || cmd.ProcessState.Success() {
			t.Logf("REPLAY-NOT-REPRODUCED C11: the child was not killed at rename #%d (no such step) %s", when, out)
			continue
		}
		// restart from what the crash left behind
		clock := new(LamportClock)
		stopCh := make(chan struct{})
		_, snap, err := NewSnapshotter(filepath.Join(dir, "snap"), 1<<20, false, log.New(os.Stderr, "", 0), clock, nil, stopCh)
		if err != nil {
			t.Fatalf("restart: %v", err)
		}
		alive := snap.AliveNodes()
		entries, _ := os.ReadDir(dir)
		var names []string
		for _, e := range entries {
			names = append(names, e.Name())
		}
		close(stopCh)
		if len(alive) < 2 {
			t.Logf("REPLAY-CONFIRMED C11: killed at rename #%d of snapshot maintenance, the restart recovered %d of the 2 recorded members (last clock %d); directory after the crash and restart: %v", when, len(alive), snap.LastClock(), names)
			return
		}
		t.Logf("REPLAY-NOT-REPRODUCED C11: after a kill at rename #%d the restart recovered %d members; directory: %v", when, len(alive), names)
	}
}

func c11Child(t *testing.T, dir string) {
	clock := new(LamportClock)
	outCh := make(chan Event, 1024)
	stopCh := make(chan struct{})
	inCh, _, err := NewSnapshotter(filepath.Join(dir, "snap"), 64, false, log.New(os.Stderr, "", 0), clock, outCh, stopCh)
	if err != nil {
		t.Fatalf("err: %v", err)
	}
	inCh <- MemberEvent{Type: EventMemberJoin, Members: []Member{
		{Name: "node-a", Addr: []byte{127, 0, 0, 1}, Port: 5000},
		{Name: "node-b", Addr: []byte{127, 0, 0, 2}, Port: 5000}}}
	for i := 0; i < 400; i++ {
		clock.Increment()
		inCh <- UserEvent{LTime: LamportTime(i + 1), Name: "x"}
		select {
		case <-outCh:
		default:
		}
	}
	time.Sleep(3 * time.Second)
}
