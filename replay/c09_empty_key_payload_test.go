package serf

import (
	"fmt"
	"io"
	"log"
	"testing"
)

// Replay driver for C09: an internal key query (install-key / use-key / remove-key) with an empty payload, which
// any member can gossip, must not make the receiving node panic. Calls the real handlers.
func TestVerifReplayC09EmptyKeyPayload(t *testing.T) {
	conf := DefaultConfig()
	s := &Serf{config: conf}
	s.logger = log.New(io.Discard, "", 0)
	sq := &serfQueries{logger: s.logger, serf: s}
	confirmed := false
	for _, name := range []string{installKeyQuery, useKeyQuery, removeKeyQuery} {
		func() {
			defer func() {
				if r := recover(); r != nil {
					msg := fmt.Sprint(r)
					if len(msg) > 0 && containsC09(msg, "slice bounds out of range") {
						t.Logf("REPLAY-CONFIRMED C09: internal query %q with an empty payload panics: %v", name, r)
						confirmed = true
					}
				}
			}()
			q := &Query{Name: internalQueryName(name), Payload: nil, serf: s}
			sq.handleQuery(q)
		}()
	}
	if !confirmed {
		t.Logf("REPLAY-NOT-REPRODUCED C09: key queries with an empty payload are answered without a slice-bounds panic")
	}
}

func containsC09(s, sub string) bool {
	for i := 0; i+len(sub) <= len(s); i++ {
		if s[i:i+len(sub)] == sub {
			return true
		}
	}
	return false
}
