package client

import (
	"bytes"
	"fmt"
	"testing"

	"github.com/hashicorp/go-msgpack/v2/codec"
)

// Replay driver for C28: the client must never send on a subscriber channel after closing it. Replays, step by
// step, the interleaving of the listener goroutine (respondSeq: look the handler up under the lock, then call
// Handle outside it) with a user goroutine calling Stop (deregisterHandler -> Cleanup closes the channel).
func TestVerifReplayC28HandleAfterCleanup(t *testing.T) {
	var buf bytes.Buffer
	enc := codec.NewEncoder(&buf, &codec.MsgpackHandle{})
	for i := 0; i < 3; i++ {
		if err := enc.Encode(&logRecord{Log: "line"}); err != nil {
			t.Fatalf("err: %v", err)
		}
	}
	c := &RPCClient{dispatch: make(map[uint64]seqHandler), dec: codec.NewDecoder(&buf, &codec.MsgpackHandle{})}
	logCh := make(chan string, 8)
	initCh := make(chan error, 1)
	mh := &monitorHandler{client: c, initCh: initCh, logCh: logCh, seq: 7}
	c.handleSeq(7, mh)
	mh.Handle(&responseHeader{Seq: 7}) // first record: initialisation
	mh.Handle(&responseHeader{Seq: 7}) // a log line is delivered
	// listener goroutine, first half of respondSeq
	c.dispatchLock.Lock()
	h := c.dispatch[7]
	c.dispatchLock.Unlock()
	// user goroutine: Stop(handle) deregisters the handler, which closes the subscriber channel
	c.deregisterHandler(7)
	// listener goroutine, second half of respondSeq
	func() {
		defer func() {
			if r := recover(); r != nil {
				t.Logf("REPLAY-CONFIRMED C28: Handle after Cleanup panics: %v", fmt.Sprint(r))
				return
			}
			t.Logf("REPLAY-NOT-REPRODUCED C28: a record arriving after Stop is dropped without touching the closed channel")
		}()
		h.Handle(&responseHeader{Seq: 7})
	}()
}
