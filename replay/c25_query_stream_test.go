package agent

import (
	"testing"
	"time"

	"github.com/hashicorp/serf/client"
	"github.com/hashicorp/serf/testutil"
)

// Replay driver for C25: a query stream must carry only real acknowledgements and responses. A real agent with a real
// RPC client; the queries have a timeout so short that Serf has closed the query's channels by the time the agent's
// stream goroutine starts reading them. Every ack/response record the client receives must name a node.
func TestVerifReplayC25QueryStream(t *testing.T) {
	ip1, returnFn1 := testutil.TakeIP()
	defer returnFn1()
	cl, a1, ipc := testRPCClient(t, ip1)
	defer ipc.Shutdown()
	defer cl.Close()
	defer a1.Shutdown()
	if err := a1.Start(); err != nil {
		t.Fatalf("err: %v", err)
	}
	testutil.Yield()

	bogusAcks, bogusResps, queries := 0, 0, 0
	for round := 0; round < 300; round++ {
		ackCh := make(chan string, 4096)
		respCh := make(chan client.NodeResponse, 4096)
		params := client.QueryParam{
			RequestAck: true,
			Timeout:    time.Duration(1+round%20) * time.Microsecond,
			Name:       "probe",
			AckCh:      ackCh,
			RespCh:     respCh,
		}
		if err := cl.Query(&params); err != nil {
			t.Fatalf("err: %v", err)
		}
		queries++
		// the client closes both channels when the completion record arrives
		deadline := time.After(5 * time.Second)
		ackOpen, respOpen := true, true
		for ackOpen || respOpen {
			select {
			case a, ok := <-ackCh:
				if !ok {
					ackOpen = false
					ackCh = nil
				} else if a == "" {
					bogusAcks++
				}
			case r, ok := <-respCh:
				if !ok {
					respOpen = false
					respCh = nil
				} else if r.From == "" {
					bogusResps++
				}
			case <-deadline:
				t.Fatalf("query stream %d did not end", round)
			}
		}
	}
	if bogusAcks+bogusResps > 0 {
		t.Logf("REPLAY-CONFIRMED C25: %d queries produced %d acknowledgement and %d response records from no node (zero-value records read from the query's closed channels)", queries, bogusAcks, bogusResps)
	} else {
		t.Logf("REPLAY-NOT-REPRODUCED C25: %d queries, every ack/response record named a node", queries)
	}
}
