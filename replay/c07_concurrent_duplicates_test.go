package serf

import (
	"io"
	"log"
	"sync"
	"testing"
	"time"
)

// Replay driver for C07: a query's response stream must carry at most one response per responding node,
// also when several replies are processed concurrently. Drives the real handleQueryResponse from many
// goroutines with replies from one node to one registered query and counts what reaches the stream.
func TestVerifReplayC07ConcurrentDuplicates(t *testing.T) {
	confirmed := false
	for round := 0; round < 3000 && !confirmed; round++ {
		s := &Serf{
			queryResponse: make(map[LamportTime]*QueryResponse),
			config:        DefaultConfig(),
		}
		s.logger = log.New(io.Discard, "", 0)
		q := &messageQuery{LTime: 7, ID: 42, Timeout: time.Minute}
		resp := newQueryResponse(64, q)
		s.queryResponse[q.LTime] = resp
		var wg sync.WaitGroup
		start := make(chan struct{})
		for g := 0; g < 8; g++ {
			wg.Add(1)
			go func() {
				defer wg.Done()
				<-start
				s.handleQueryResponse(&messageQueryResponse{LTime: 7, ID: 42, From: "node-x", Payload: []byte("r")})
			}()
		}
		close(start)
		wg.Wait()
		if n := len(resp.respCh); n > 1 {
			t.Logf("REPLAY-CONFIRMED C07: %d responses from node-x reached the response stream of one query (round %d)", n, round)
			confirmed = true
		}
	}
	if !confirmed {
		t.Logf("REPLAY-NOT-REPRODUCED C07: at most one response per node in every round")
	}
}
