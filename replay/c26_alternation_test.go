package agent

import (
	"testing"

	"github.com/hashicorp/serf/serf"
)

// Replay driver for C26: a filter pattern must match the whole name / status / tag value. Drives the real
// filterMembers with patterns containing a top-level alternation, which an unparenthesised "^" + p + "$" anchors on
// one side only.
func TestVerifReplayC26WholeStringMatch(t *testing.T) {
	i := &AgentIPC{}
	members := []serf.Member{
		{Name: "a", Status: serf.StatusAlive, Tags: map[string]string{"role": "web"}},
		{Name: "b", Status: serf.StatusAlive, Tags: map[string]string{"role": "db"}},
		{Name: "ab", Status: serf.StatusLeft, Tags: map[string]string{"role": "webdb"}},
		{Name: "xb", Status: serf.StatusFailed, Tags: map[string]string{}},
		{Name: "ac", Status: serf.StatusAlive, Tags: map[string]string{"role": "xdb"}},
	}
	names := func(ms []serf.Member) []string {
		var out []string
		for _, m := range ms {
			out = append(out, m.Name)
		}
		return out
	}
	same := func(a, b []string) bool {
		if len(a) != len(b) {
			return false
		}
		for k := range a {
			if a[k] != b[k] {
				return false
			}
		}
		return true
	}
	confirmed := false
	got, err := i.filterMembers(members, nil, "", "a|b")
	if err != nil || !same(names(got), []string{"a", "b"}) {
		t.Logf("REPLAY-CONFIRMED C26: name pattern \"a|b\" selected %v (err=%v); whole-string matches are [a b]", names(got), err)
		confirmed = true
	}
	got, err = i.filterMembers(members, map[string]string{"role": "web|db"}, "", "")
	if err != nil || !same(names(got), []string{"a", "b"}) {
		t.Logf("REPLAY-CONFIRMED C26: tag pattern role=\"web|db\" selected %v (err=%v); whole-string matches are [a b]", names(got), err)
		confirmed = true
	}
	got, err = i.filterMembers(members, nil, "alive|lef", "")
	if err != nil || !same(names(got), []string{"a", "b", "ac"}) {
		t.Logf("REPLAY-CONFIRMED C26: status pattern \"alive|lef\" selected %v (err=%v); whole-string matches are [a b ac]", names(got), err)
		confirmed = true
	}
	if !confirmed {
		t.Logf("REPLAY-NOT-REPRODUCED C26: alternations are matched over the whole string")
	}
}
