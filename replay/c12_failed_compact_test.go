package serf

import (
	"bufio"
	"fmt"
	"io"
	"log"
	"os"
	"path/filepath"
	"testing"
)

// Replay driver for C12: a single failing snapshot file operation must not crash the node; recording resumes once the
// fault has cleared. Drives the real Snapshotter.compact with os.Remove of the old snapshot failing once (the path is
// occupied by a non-empty directory), then records another change.
func TestVerifReplayC12FailedCompact(t *testing.T) {
	td := t.TempDir()
	path := filepath.Join(td, "snapshot")
	fh, err := os.OpenFile(path, os.O_RDWR|os.O_APPEND|os.O_CREATE, 0644)
	if err != nil {
		t.Fatalf("err: %v", err)
	}
	s := &Snapshotter{
		aliveNodes: map[string]string{"a": "10.0.0.1:7946"},
		clock:      new(LamportClock),
		fh:         fh,
		buffered:   bufio.NewWriter(fh),
		logger:     log.New(io.Discard, "", 0),
		path:       path,
	}
	// transient fault: the old snapshot cannot be removed
	if err := os.Remove(path); err != nil {
		t.Fatalf("err: %v", err)
	}
	if err := os.Mkdir(path, 0755); err != nil {
		t.Fatalf("err: %v", err)
	}
	if err := os.WriteFile(filepath.Join(path, "x"), []byte("x"), 0644); err != nil {
		t.Fatalf("err: %v", err)
	}
	if err := s.compact(); err == nil {
		t.Logf("REPLAY-NOT-REPRODUCED C12: compaction did not fail")
		return
	}
	// the fault clears
	os.RemoveAll(path)
	func() {
		defer func() {
			if r := recover(); r != nil {
				t.Logf("REPLAY-CONFIRMED C12: recording a change after a failed compaction panics: %v", fmt.Sprint(r))
				return
			}
			t.Logf("REPLAY-NOT-REPRODUCED C12: the snapshotter keeps running after a failed compaction")
		}()
		s.tryAppend("alive: b 10.0.0.2:7946\n")
	}()
}
