package serf

// Replay driver for C09 / C08: a query carrying an empty filter ([]byte{}) makes
// shouldProcessQuery index filter[0] and panic inside the memberlist receive path.

import (
	"fmt"
	"io"
	"log"
	"testing"
)

func TestVerifReplayC09EmptyFilter(t *testing.T) {
	conf := DefaultConfig()
	conf.Init()
	s := &Serf{config: conf, logger: log.New(io.Discard, "", 0)}
	panicked := false
	func() {
		defer func() {
			if r := recover(); r != nil {
				panicked = true
				fmt.Println("REPLAY-CONFIRMED C09: shouldProcessQuery([][]byte{{}}) panics:", r)
			}
		}()
		s.shouldProcessQuery([][]byte{{}})
	}()
	if !panicked {
		fmt.Println("REPLAY-NOT-REPRODUCED C09")
	}
}
